#!/usr/bin/env python3
"""Self-tests of the verification machinery (DESIGN.md section 9).

  ./check selftest unit               unit tests of the harness's reference code (CRC-8, reference decoder, forger)
  ./check selftest determinism        every profile, many seeds, 1 vs 16 workers, two processes each
  ./check selftest replays            committed witness replays reproduce in a fresh process
  ./check selftest mutants [ids...]   sensitivity corpus: each breaking edit must be reported under its
                                      property, each benign edit must leave all 13 checks silent
  ./check selftest seeded [ids...]    same for the independently written changes under /verif/seeded/

Scratch copies of the repository live under $TMPDIR (default /tmp) and are removed afterwards.
Exit 0 = all as expected, 1 = something unexpected, 2 = harness error.
"""
import json, os, shutil, subprocess, sys, tempfile, time
from concurrent.futures import ThreadPoolExecutor

HERE = os.path.dirname(os.path.abspath(__file__))
REPO = "/repo"
PROPS = ["C01", "C02", "C04", "C07", "C09", "C10", "C11", "C12", "C13", "C14", "C15", "C16", "C17"]
ENV = dict(os.environ, CARGO_NET_OFFLINE="true")


def sh(cmd, cwd=None, env=None, timeout=1800):
    p = subprocess.run(cmd, shell=True, cwd=cwd, env=env or ENV, stdout=subprocess.PIPE, stderr=subprocess.STDOUT, text=True, timeout=timeout)
    return p.returncode, p.stdout


def build():
    rc, out = sh("cargo build --release --offline --quiet", cwd=os.path.join(HERE, "sim"))
    if rc != 0:
        print(out)
        sys.exit(2)
    return os.path.join(HERE, "sim/target/release/simbus")


# ---------------------------------------------------------------- determinism

def determinism(args):
    binp = build()
    seeds = int(args[0]) if args else 24
    runs = 1500
    bad = 0
    jobs = []
    for p in PROPS:
        for s in range(1, seeds + 1):
            jobs.append((p, s))

    def one(job):
        p, s = job
        outs = []
        for workers in (1, 16, 5):
            rc, out = sh(f"{binp} digest {p} {runs} {s} {workers}")
            if rc != 0:
                return (job, "error", out)
            tok = [t for t in out.split() if t.startswith("batch_digest=") or t.startswith("events=")]
            outs.append(" ".join(tok))
        return (job, "ok" if len(set(outs)) == 1 else "DIVERGED", outs)

    with ThreadPoolExecutor(max_workers=8) as ex:
        for job, status, info in ex.map(one, jobs):
            if status != "ok":
                bad += 1
                print("determinism", job, status, info)
    print(f"determinism: {len(jobs)} (property, seed) batches x {runs} runs, each executed in 3 separate processes with 1, 16 and 5 workers: {len(jobs) - bad} identical, {bad} diverged")
    return 1 if bad else 0


# ---------------------------------------------------------------- replays

def replays(args):
    build()
    bad = 0
    d = os.path.join(HERE, "findings")
    for f in sorted(os.listdir(d)):
        if not f.endswith(".json"):
            continue
        rc, out = sh(f"{HERE}/check replay {os.path.join(d, f)}")
        known = "KNOWN-FINDING" in out
        print(f"replay {f}: exit={rc} known-finding-line={known}")
        if rc != 0 or not known:
            bad += 1
    for sd in sorted(os.listdir(os.path.join(HERE, "seeded"))) if os.path.isdir(os.path.join(HERE, "seeded")) else []:
        pass
    return 1 if bad else 0


# ---------------------------------------------------------------- mutants

def scratch_copy(tag):
    base = tempfile.mkdtemp(prefix=f"libmctp-{tag}-", dir=os.environ.get("TMPDIR", "/tmp"))
    dst = os.path.join(base, "repo")
    os.makedirs(dst)
    for item in ("src", "Cargo.toml", "Cargo.lock", "README.md"):
        s = os.path.join(REPO, item)
        if os.path.isdir(s):
            shutil.copytree(s, os.path.join(dst, item))
        elif os.path.exists(s):
            shutil.copy(s, os.path.join(dst, item))
    return base, dst


def apply_edit(dst, m):
    if m.get("patch"):
        rc, out = sh(f"patch -p1 --no-backup-if-mismatch < {m['patch']}", cwd=dst)
        return rc == 0, out
    if m.get("revert"):
        rc, out = sh(f"git -C {REPO} show {m['revert']} -- src | patch -R -p1 --no-backup-if-mismatch", cwd=dst)
        return rc == 0, out
    if m.get("edits"):
        for e in m["edits"]:
            ok, why = apply_edit(dst, e)
            if not ok:
                return ok, why
        return True, ""
    path = os.path.join(dst, m["file"])
    text = open(path).read()
    n = text.count(m["old"])
    if n == 0:
        return False, "old text not found (stale corpus entry)"
    if n > 1 and not m.get("all"):
        idx = m.get("occurrence", 0)
        parts = text.split(m["old"])
        text = m["old"].join(parts[: idx + 1]) + m["new"] + m["old"].join(parts[idx + 1 :])
    else:
        text = text.replace(m["old"], m["new"])
    open(path, "w").write(text)
    return True, ""


def run_mutant(m, full_matrix, runs):
    tag = m["id"]
    base, dst = scratch_copy(tag)
    res = {"id": tag, "kind": m["kind"], "expect": m["expect"]}
    try:
        ok, why = apply_edit(dst, m)
        if not ok:
            res["status"] = "STALE"
            res["detail"] = why
            return res
        rc, out = sh("cargo test --offline --lib --quiet 2>&1 | tail -5", cwd=dst, env=dict(ENV, CARGO_TARGET_DIR=os.path.join(base, "t")))
        if "test result: ok" not in out:
            res["status"] = "TESTS-FAIL"
            res["detail"] = out[-400:]
            return res
        targets = [p.strip() for p in m["expect"].split(":")[0].split(",")] if m["kind"] == "breaking" else []
        props = PROPS if (full_matrix or m["kind"] != "breaking") else sorted(set(targets + m.get("accept", [])))
        env = dict(ENV, VERIF_REPO=dst, VERIF_DIR=os.path.join(base, "out"), VERIF_RUNS=str(runs), VERIF_WORKERS="4")
        alarms = {}
        for p in props:
            rc, out = sh(f"{HERE}/check {p} quick", env=env)
            if rc == 2:
                res["status"] = "HARNESS-ERROR"
                res["detail"] = out[-600:]
                return res
            if rc == 1:
                sig = [l for l in out.splitlines() if l.startswith("violation signature:")]
                alarms[p] = sig[0].split(":", 1)[1].strip() if sig else "?"
                # the replay must reproduce in a fresh process
                rp = [l for l in out.splitlines() if l.startswith("VIOLATION property=")]
                if rp:
                    path = rp[0].split("replay=")[1].strip()
                    rc2, out2 = sh(f"{HERE}/check replay {path}", env=env)
                    if rc2 != 1 or "reproduced:" not in out2:
                        alarms[p] += " [REPLAY-DID-NOT-REPRODUCE]"
        res["alarms"] = alarms
        if m["kind"] == "breaking":
            hit = [p for p in targets if p in alarms]
            also = [p for p in m.get("accept", []) if p in alarms]
            res["status"] = "DETECTED" if hit else ("DETECTED-UNDER-" + "+".join(also) if also else "MISSED")
        elif m["kind"] == "disputed":
            # judged not to violate the property as stated (see meta.json "assessment"): either outcome is recorded
            res["status"] = "DISPUTED-REPORTED" if alarms else "DISPUTED-SILENT"
        else:
            res["status"] = "SILENT" if not alarms else "FALSE-ALARM"
        return res
    finally:
        shutil.rmtree(base, ignore_errors=True)


def mutants(args, corpus_path=None, label="mutants"):
    build()
    full = "--full" in args
    args = [a for a in args if not a.startswith("--")]
    corpus = json.load(open(corpus_path or os.path.join(HERE, "mutants/corpus.json")))
    if args:
        corpus = [m for m in corpus if m["id"] in args or any(m["id"].startswith(a) for a in args)]
    runs = int(os.environ.get("SELFTEST_RUNS", "60000"))
    t0 = time.time()
    results = []
    with ThreadPoolExecutor(max_workers=4) as ex:
        for r in ex.map(lambda m: run_mutant(m, full, runs), corpus):
            results.append(r)
            print(f"{r['id']:34s} {r['status']:12s} {json.dumps(r.get('alarms', r.get('detail', '')))[:300]}", flush=True)
    bad = [r for r in results if not (r["status"] in ("DETECTED", "SILENT") or r["status"].startswith("DETECTED-UNDER-") or r["status"].startswith("DISPUTED-"))]
    out = os.path.join(HERE, f"{label}/last_results.json")
    json.dump(results, open(out, "w"), indent=1)
    if full and not args:
        json.dump(results, open(os.path.join(HERE, f"{label}/last_full_results.json"), "w"), indent=1)
    print(f"{label}: {len(results)} edits, {len(results) - len(bad)} as expected, {len(bad)} not; {time.time() - t0:.0f}s; results in {out}")
    return 1 if bad else 0


def seeded(args):
    d = os.path.join(HERE, "seeded")
    corpus = []
    for name in sorted(os.listdir(d)):
        meta = os.path.join(d, name, "meta.json")
        if os.path.exists(meta):
            mj = json.load(open(meta))
            kind = mj.get("kind", "breaking")
            corpus.append({"id": name, "kind": kind, "expect": (mj.get("property", "benign") + ": " + mj.get("summary", "")), "patch": os.path.join(d, name, "patch.diff"), "accept": mj.get("accept", [])})
    tmp = os.path.join(d, ".corpus.tmp.json")
    json.dump(corpus, open(tmp, "w"))
    try:
        return mutants(args, tmp, "seeded")
    finally:
        os.remove(tmp)


def main():
    if len(sys.argv) < 2:
        print(__doc__)
        return 2
    what, args = sys.argv[1], sys.argv[2:]
    if what == "unit":
        rc, out = sh("cargo test --release --offline 2>&1 | grep -E '^test |test result|error'", cwd=os.path.join(HERE, "sim"))
        print(out)
        return 0 if "test result: ok" in out else 1
    if what == "determinism":
        return determinism(args)
    if what == "replays":
        return replays(args)
    if what == "mutants":
        return mutants(args)
    if what == "seeded":
        return seeded(args)
    print(__doc__)
    return 2


if __name__ == "__main__":
    sys.exit(main())
