#!/usr/bin/env bash
# Build the simulator from files on disk only (offline).  libmctp is a path dependency
# on /repo, so every later ./check rebuilds whatever changed there.
set -eu
HERE="$(cd "$(dirname "${BASH_SOURCE[0]}")" && pwd)"
export CARGO_NET_OFFLINE=true
cd "$HERE/sim"
cargo build --release --offline
mkdir -p "$HERE/evidence" "$HERE/replays"
echo "setup ok: $(ls -la target/release/simbus | awk '{print $5}') bytes"
