//! Thin, trapped wrappers around the real libmctp receive path, converting results
//! into owned summaries (payload as offsets into the input).

use libmctp::errors::{ControlMessageError, DecodeError};
use libmctp::smbus::MCTPSMBusContext;
use libmctp::MessageType;

use crate::trap::{trap, PanicKind};

#[derive(Clone, Copy, Debug, PartialEq, Eq)]
pub enum ErrKind {
    Unknown,
    CtlUnknown,
    InvalidLen,
    InvalidHdr,
    Cc(u8),
    InvalidPec,
}

impl ErrKind {
    pub fn name(self) -> String {
        match self {
            ErrKind::Unknown => "Unknown".into(),
            ErrKind::CtlUnknown => "ControlMessage(Unknown)".into(),
            ErrKind::InvalidLen => "InvalidRequestDataLength".into(),
            ErrKind::InvalidHdr => "InvalidControlHeader".into(),
            ErrKind::Cc(_) => "UnsuccessfulCompletionCode".into(),
            ErrKind::InvalidPec => "InvalidPEC".into(),
        }
    }
}

#[derive(Clone, Copy, Debug, PartialEq, Eq)]
pub enum Dec {
    /// payload = input[start..end]; start == usize::MAX if the payload is not a sub-slice of the input
    Ok { mtype: u8, start: usize, end: usize },
    Err { mtype: u8, err: ErrKind },
    Panic(PanicKind),
}

impl Dec {
    pub fn is_ok(&self) -> bool {
        matches!(self, Dec::Ok { .. })
    }
    pub fn is_panic(&self) -> bool {
        matches!(self, Dec::Panic(_))
    }
    pub fn show(&self) -> String {
        match self {
            Dec::Ok { mtype, start, end } => format!("Ok(type={:#04x}, payload=[{}..{}])", mtype, start, end),
            Dec::Err { mtype, err } => match err {
                ErrKind::Cc(c) => format!("Err(type={:#04x}, UnsuccessfulCompletionCode({}))", mtype, c),
                e => format!("Err(type={:#04x}, {})", mtype, e.name()),
            },
            Dec::Panic(k) => format!("PANIC({})", k.name()),
        }
    }
}

fn mt(m: MessageType) -> u8 {
    m as u8
}

fn conv_err(e: (MessageType, DecodeError)) -> Dec {
    let (m, d) = e;
    let err = match d {
        DecodeError::Unknown => ErrKind::Unknown,
        DecodeError::ControlMessage(c) => match c {
            ControlMessageError::Unknown => ErrKind::CtlUnknown,
            ControlMessageError::InvalidRequestDataLength => ErrKind::InvalidLen,
            ControlMessageError::InvalidControlHeader => ErrKind::InvalidHdr,
            ControlMessageError::UnsuccessfulCompletionCode(cc) => ErrKind::Cc(cc as u8),
            ControlMessageError::InvalidPEC => ErrKind::InvalidPec,
        },
    };
    Dec::Err { mtype: mt(m), err }
}

fn offsets(input: &[u8], payload: &[u8]) -> (usize, usize) {
    if payload.is_empty() {
        // an empty payload has no position worth comparing (a static `&[]` is as good as
        // `&input[k..k]`): canonical place = immediately before the PEC
        let k = input.len().saturating_sub(1);
        return (k, k);
    }
    let base = input.as_ptr() as usize;
    let p = payload.as_ptr() as usize;
    if p >= base && p + payload.len() <= base + input.len() {
        (p - base, p - base + payload.len())
    } else {
        (usize::MAX, payload.len())
    }
}

pub fn decode(ctx: &MCTPSMBusContext, input: &[u8]) -> Dec {
    match trap(|| match ctx.decode_packet(input) {
        Ok((m, p)) => {
            let (s, e) = offsets(input, p);
            Dec::Ok { mtype: mt(m), start: s, end: e }
        }
        Err(e) => conv_err(e),
    }) {
        Ok(d) => d,
        Err((k, _)) => Dec::Panic(k),
    }
}

pub fn process(ctx: &MCTPSMBusContext, input: &[u8], resp: &mut [u8]) -> (Dec, Option<usize>) {
    match trap(|| match ctx.process_packet(input, resp) {
        Ok(((m, p), r)) => {
            let (s, e) = offsets(input, p);
            (Dec::Ok { mtype: mt(m), start: s, end: e }, r)
        }
        Err(e) => (conv_err(e), None),
    }) {
        Ok(d) => d,
        Err((k, _)) => (Dec::Panic(k), None),
    }
}

#[derive(Clone, Copy, Debug, PartialEq, Eq)]
pub enum Len {
    Ok(usize),
    Err { mtype: u8 },
    Panic(PanicKind),
}

pub fn get_length(ctx: &MCTPSMBusContext, input: &[u8]) -> Len {
    match trap(|| match ctx.get_length(input) {
        Ok(l) => Len::Ok(l),
        Err((m, _)) => Len::Err { mtype: mt(m) },
    }) {
        Ok(l) => l,
        Err((k, _)) => Len::Panic(k),
    }
}
