//! Receive side: what a node does with a slice its driver cut from the bus, and the
//! oracles evaluated on every such delivery (C01 C02 C09 C10 C11 C12 C13 C14 C15 C17).

use crate::calls::Expect;
use crate::findings::{decode_class, probe_class, process_class};
use crate::real::{self, Dec, ErrKind, Len};
use crate::refmodel::{crc8, fixed_resp_len, hex, parse, pec_ok, ref_decode, RefVerdict, T_CONTROL, T_INVALID};
use crate::sim::*;
use crate::stats::*;
use crate::trap::PanicKind;

fn vendor_field(v: (u8, u32, u16)) -> Vec<u8> {
    let (f, d, nv) = v;
    if f == 0 {
        vec![0, (d >> 8) as u8, d as u8, (nv >> 8) as u8, nv as u8]
    } else {
        vec![1, (d >> 24) as u8, (d >> 16) as u8, (d >> 8) as u8, d as u8, (nv >> 8) as u8, nv as u8]
    }
}

impl<'c, 's> Run<'c, 's> {
    // ------------------------------------------------------------ C10

    fn c10_panic(&mut self, ni: usize, api: &'static str, bytes: &[u8], kind: PanicKind) {
        self.st.panics_trapped += 1;
        let class = match api {
            "get_length" => probe_class(bytes),
            "decode_packet" => decode_class(bytes),
            _ => process_class(bytes, self.nodes[ni].cfg.vplain.len()),
        };
        self.viol(
            Prop::C10,
            format!("C10/panic/{}/{}/{}", api, class, kind.name()),
            format!("node{} (addr {:#04x}): {} panicked ({}) on {} bytes: {}", ni, self.nodes[ni].cfg.addr, api, kind.name(), bytes.len(), hex(bytes)),
        );
    }

    // ------------------------------------------------------------ C17 (+ C10) on every probe

    pub fn probe_oracles(&mut self, ni: usize, b: &[u8], r: Len, _head: Option<usize>) {
        self.eval(Prop::C10, "C10/get_length-returns");
        if let Len::Panic(k) = r {
            self.c10_panic(ni, "get_length", b, k);
        }
        if b.len() < 3 {
            self.eval(Prop::C17, "C17/short-input-rejected");
            match r {
                Len::Err { .. } => {}
                Len::Ok(l) => self.viol(Prop::C17, "C17/short-accepted".into(), format!("get_length({}) = Ok({}) on {} bytes", hex(b), l, b.len())),
                Len::Panic(k) => self.viol(
                    Prop::C17,
                    format!("C17/short-panic/{}", k.name()),
                    format!("get_length panicked ({}) on a {}-byte input: {}", k.name(), b.len(), hex(b)),
                ),
            }
            return;
        }
        self.eval(Prop::C17, "C17/function-of-first-three-bytes");
        let shown = &b[..b.len().min(12)];
        if b[1] == 0x0F {
            self.st.probe("probe-mctp-prefix");
            let want = b[2] as usize + 4;
            match r {
                Len::Ok(l) if l == want => {}
                Len::Ok(l) => self.viol(
                    Prop::C17,
                    "C17/value".into(),
                    format!("get_length({}.. , {} bytes) = Ok({}), expected byte[2]+4 = {}", hex(shown), b.len(), l, want),
                ),
                Len::Err { .. } => self.viol(
                    Prop::C17,
                    "C17/rejects-mctp".into(),
                    format!("get_length({}.., {} bytes) = Err although byte[1] == 0x0F", hex(shown), b.len()),
                ),
                Len::Panic(k) => self.viol(
                    Prop::C17,
                    format!("C17/panic/{}", k.name()),
                    format!("get_length({}.., {} bytes) panicked ({})", hex(shown), b.len(), k.name()),
                ),
            }
        } else {
            self.st.probe("probe-non-mctp-prefix");
            match r {
                Len::Err { mtype } if mtype == T_INVALID => {}
                Len::Err { mtype } => self.viol(
                    Prop::C17,
                    "C17/error-type".into(),
                    format!("get_length({}..) = Err with message type {:#04x}, expected Invalid", hex(shown), mtype),
                ),
                Len::Ok(l) => self.viol(
                    Prop::C17,
                    "C17/accepts-non-mctp".into(),
                    format!("get_length({}.., {} bytes) = Ok({}) although byte[1] = {:#04x} != 0x0F", hex(shown), b.len(), l, b[1]),
                ),
                Len::Panic(k) => self.viol(
                    Prop::C17,
                    format!("C17/panic/{}", k.name()),
                    format!("get_length({}.., {} bytes) panicked ({})", hex(shown), b.len(), k.name()),
                ),
            }
        }
    }

    // ------------------------------------------------------------ decode-side oracles shared by handle / snoop / decode-only

    /// C10, C02(a,b), C09(i,ii), C01 on one decode_packet result
    fn decode_oracles(&mut self, ni: usize, b: &[u8], d: Dec, fi: Option<usize>) {
        self.eval(Prop::C10, "C10/decode_packet-returns");
        if let Dec::Panic(k) = d {
            self.c10_panic(ni, "decode_packet", b, k);
        }
        let pec = pec_ok(b);
        // C02 (a): success only for strings whose last byte is the CRC-8 of the rest
        self.eval(Prop::C02, "C02/accept-implies-pec");
        if !pec {
            self.st.probe("input-with-bad-pec");
        }
        if d.is_ok() && !pec {
            let (last, want) = if b.is_empty() { (0, 0) } else { (b[b.len() - 1], crc8(&b[..b.len() - 1])) };
            self.viol(
                Prop::C02,
                "C02/accept/decode_packet".into(),
                format!("decode_packet accepted {} whose PEC is {:#04x}, CRC-8 of the rest is {:#04x}", hex(b), last, want),
            );
        }
        // C02 (b): a corruption confined to 8 consecutive bits of a valid packet is never accepted
        if let Some(f) = fi {
            let fr = &self.frames[f];
            if fr.burst_only && fr.orig.len() == b.len() && pec_ok(&fr.orig) && fr.bytes == b {
                self.eval(Prop::C02, "C02/burst-rejected");
                self.st.probe("burst-on-valid-frame-delivered");
                if d.is_ok() {
                    let msg = format!("decode_packet accepted a valid packet corrupted in <= 8 consecutive bits: sent {} received {}", hex(&self.frames[f].orig), hex(b));
                    self.viol(Prop::C02, "C02/burst/decode_packet".into(), msg);
                }
            }
            if pec && self.frames[f].n_alter > 0 && self.frames[f].orig.len() == b.len() && self.frames[f].bytes == b {
                self.st.probe("corrupted-frame-passed-pec-by-chance");
            }
        }
        self.c09(ni, b, d);
        if let Some(f) = fi {
            self.c01(ni, b, d, f);
        }
    }

    fn c09_in_domain(&self, b: &[u8], v: &RefVerdict) -> bool {
        if matches!(v, RefVerdict::Short) || b.len() > 259 {
            return false; // too short for the headers / longer than the SMBus maximum
        }
        let p = parse(b);
        if p.hdr_ok && !p.ic && p.control && !p.rq && matches!(p.cmd, 0x02 | 0x08 | 0x09) {
            return false; // library's expected lengths disagree with DSP0236 (C01 finding)
        }
        let class = decode_class(b);
        if class != "none" && self.known.class_open("decode_packet", class) {
            return false;
        }
        true
    }

    fn c09(&mut self, ni: usize, b: &[u8], d: Dec) {
        if d.is_panic() {
            return; // C10's business
        }
        let v = ref_decode(b);
        if !self.c09_in_domain(b, &v) {
            self.st.probe("c09-input-outside-claim");
            return;
        }
        self.eval(Prop::C09, "C09/verdict-vs-reference");
        let p = parse(b);
        match (d, v) {
            (Dec::Ok { mtype, start, end }, RefVerdict::Accept { mtype: rm, start: rs, end: re }) => {
                self.st.probe("c09-both-accept");
                if mtype != rm {
                    self.viol(Prop::C09, "C09/message-type".into(), format!("decode_packet says type {:#04x}, byte 8 is {:#04x}: {}", mtype, b[8], hex(b)));
                } else if start != rs || end != re {
                    self.viol(
                        Prop::C09,
                        format!("C09/payload-range/{}", type_name(rm, p.rq)),
                        format!("node{}: accepted payload is input[{}..{}], the bytes between message header and PEC are [{}..{}]: {}", ni, start as isize, end, rs, re, hex(b)),
                    );
                }
            }
            (Dec::Ok { .. }, RefVerdict::Reject { bad_header, bad_pec, cc, bad_len }) => {
                let reason = if bad_header {
                    if !p.hdr_ok {
                        "header-version-or-reserved-bits"
                    } else if p.ic {
                        "integrity-check-bit"
                    } else {
                        "unsupported-message-type"
                    }
                } else if bad_pec {
                    "bad-pec"
                } else if cc.is_some() {
                    "completion-code"
                } else if bad_len {
                    "fixed-data-length"
                } else {
                    "other"
                };
                self.viol(
                    Prop::C09,
                    format!("C09/accepts-ill-formed/{}", reason),
                    format!("node{}: decode_packet accepted an ill-formed packet ({}): {}", ni, reason, hex(b)),
                );
            }
            (Dec::Err { mtype, err }, RefVerdict::Accept { .. }) => {
                self.viol(
                    Prop::C09,
                    format!("C09/rejects-well-formed/{}/{}", type_name(p.mtype, p.rq), err.name()),
                    format!("node{}: decode_packet rejected a well-formed packet with (type {:#04x}, {}): {}", ni, mtype, d.show(), hex(b)),
                );
            }
            (Dec::Err { mtype, err }, RefVerdict::Reject { bad_header, bad_pec, .. }) => {
                self.st.probe("c09-both-reject");
                // truthfulness
                let dl_wrong = if p.control && b.len() >= 13 {
                    if p.rq {
                        matches!(crate::refmodel::fixed_req_len(p.cmd), Some(l) if l != b.len() - 12)
                    } else {
                        matches!(fixed_resp_len(p.cmd), Some(l) if l != b.len() - 13)
                    }
                } else if p.control && b.len() == 12 && p.rq {
                    matches!(crate::refmodel::fixed_req_len(p.cmd), Some(l) if l != 0)
                } else {
                    false
                };
                let lie = match err {
                    ErrKind::InvalidPec if !bad_pec => Some("InvalidPEC-but-pec-correct"),
                    ErrKind::InvalidLen if !(p.control && dl_wrong) => Some("InvalidRequestDataLength-but-length-fine"),
                    ErrKind::Cc(c) if !(p.control && !p.rq && b.len() >= 13 && p.cc == c && c != 0) => Some("completion-code-not-in-packet"),
                    _ => None,
                };
                if let Some(l) = lie {
                    self.viol(Prop::C09, format!("C09/untruthful-error/{}", l), format!("node{}: {} for {}", ni, d.show(), hex(b)));
                } else if mtype == T_INVALID && !bad_header {
                    self.viol(
                        Prop::C09,
                        "C09/untruthful-error/type-Invalid-but-header-supported".into(),
                        format!("node{}: {} for {}", ni, d.show(), hex(b)),
                    );
                }
            }
            _ => {}
        }
    }

    fn c01(&mut self, ni: usize, b: &[u8], d: Dec, f: usize) {
        let fr = &self.frames[f];
        let exp = match fr.expect {
            Some(e) if fr.intact() && matches!(fr.origin, Origin::Encoder | Origin::Response) && fr.bytes == b => e,
            _ => return,
        };
        let api = fr.api;
        self.eval(Prop::C01, "C01/roundtrip");
        let n = b.len();
        let bad: Option<String> = match (exp, d) {
            (_, Dec::Panic(k)) => Some(format!("panic:{}", k.name())),
            (Expect::Ok { mtype, start }, Dec::Ok { mtype: m, start: s, end: e }) => {
                if m != mtype {
                    Some("wrong-message-type".into())
                } else if s != start {
                    Some("payload-start".into())
                } else if e != n - 1 {
                    Some("payload-end".into())
                } else {
                    None
                }
            }
            (Expect::Ok { .. }, Dec::Err { err, .. }) => Some(format!("rejected:{}", err.name())),
            (Expect::ErrCc(c), Dec::Err { err: ErrKind::Cc(c2), .. }) => {
                if c2 != c {
                    Some("wrong-completion-code".into())
                } else {
                    None
                }
            }
            (Expect::ErrCc(_), Dec::Err { err, .. }) => Some(format!("wrong-error:{}", err.name())),
            (Expect::ErrCc(_), Dec::Ok { .. }) => Some("non-success-accepted".into()),
        };
        if let Some(what) = bad {
            self.viol(
                Prop::C01,
                format!("C01/roundtrip/{}/{}", api, what),
                format!("node{} decoding the exact output of {}: expected {:?}, got {} ; frame {}", ni, api, exp, d.show(), hex(b)),
            );
        }
    }

    /// decode-only call on node `ni` (A7, snooping): must not change anything
    pub fn decode_only(&mut self, ni: usize, b: &[u8], fi: Option<usize>, cause: &'static str) -> Dec {
        let (off, end) = self.stage(ni, b, true);
        let eids0 = {
            use libmctp::mctp_traits::SMBusMCTPRequestResponse;
            let nd = &self.nodes[ni];
            (nd.ctx.get_request().get_eid(), nd.ctx.get_response().get_eid())
        };
        let d = real::decode(&self.nodes[ni].ctx, &self.nodes[ni].rxbuf[off..end]);
        self.st.lib_calls += 1;
        if !pec_ok(b) {
            use libmctp::mctp_traits::SMBusMCTPRequestResponse;
            let eids1 = {
                let nd = &self.nodes[ni];
                (nd.ctx.get_request().get_eid(), nd.ctx.get_response().get_eid())
            };
            self.eval(Prop::C02, "C02/bad-pec-has-no-effect");
            if eids1 != eids0 {
                self.viol(
                    Prop::C02,
                    "C02/effect/eid".into(),
                    format!("EID changed from {:02x?} to {:02x?} by decode_packet on bad-PEC input {}", eids0, eids1, hex(b)),
                );
            }
        }
        if pec_ok(b) {
            let node = &mut self.nodes[ni];
            node.twin_rx[off..end].copy_from_slice(&b[..end - off]);
            let dt = real::decode(&node.twin, &node.twin_rx[off..end]);
            self.twin_compare(ni, "decode_packet", d.show(), dt.show(), b);
        }
        if self.tracing() {
            self.tr(format!("   node{} decode_packet({} bytes) -> {}", ni, b.len(), d.show()));
        }
        self.decode_oracles(ni, b, d, fi);
        self.check_state(ni, cause);
        d
    }

    /// every other node decodes the same bytes: the outcome depends on the bytes alone
    pub fn snoop(&mut self, ni: usize, b: &[u8], fi: Option<usize>, d0: Option<Dec>) {
        let mut first: Option<(usize, Dec)> = d0.map(|d| (ni, d));
        for nj in 0..self.nodes.len() {
            if nj == ni || self.halt {
                continue;
            }
            let dj = self.decode_only(nj, b, fi, "after-snooped-decode");
            match first {
                None => first = Some((nj, dj)),
                Some((n0, d)) => {
                    let v = ref_decode(b);
                    if !self.c09_in_domain(b, &v) {
                        continue;
                    }
                    self.eval(Prop::C09, "C09/context-independence");
                    if d != dj && !d.is_panic() && !dj.is_panic() {
                        self.viol(
                            Prop::C09,
                            "C09/context-dependence".into(),
                            format!("same bytes {} decode to {} on node{} but {} on node{}", hex(b), d.show(), n0, dj.show(), nj),
                        );
                    }
                }
            }
        }
    }

    // ------------------------------------------------------------ the delivery

    /// the driver hands `b` to the library; a node with a single transmit buffer lets
    /// process_packet write its response over whatever request or response it encoded last
    pub fn handle(&mut self, ni: usize, b: Vec<u8>, fi: Option<usize>) {
        let shared = self.nodes[ni].cfg.shared_buf;
        if shared {
            let node = &mut self.nodes[ni];
            std::mem::swap(&mut node.tx, &mut node.resp);
            std::mem::swap(&mut node.twin_tx, &mut node.twin_resp);
            self.st.probe("response-written-into-shared-tx-buffer");
        }
        self.handle_inner(ni, b, fi);
        if shared {
            let node = &mut self.nodes[ni];
            std::mem::swap(&mut node.tx, &mut node.resp);
            std::mem::swap(&mut node.twin_tx, &mut node.twin_resp);
        }
    }

    fn handle_inner(&mut self, ni: usize, b: Vec<u8>, fi: Option<usize>) {
        let n = b.len();
        if let Some(f) = fi {
            let fr = &self.frames[f];
            let kind = fr.origin as u8;
            let alt = fr.n_alter.min(3);
            self.st.triples.insert((kind, if n > 8 { b[8] } else { 0xEE }, alt));
        }
        let resp_before = self.nodes[ni].resp.clone();
        let eids_before = {
            use libmctp::mctp_traits::SMBusMCTPRequestResponse;
            let nd = &self.nodes[ni];
            (nd.ctx.get_request().get_eid(), nd.ctx.get_response().get_eid())
        };
        let n_sets = self.nodes[ni].cfg.vplain.len();
        let own = self.nodes[ni].cfg.addr;
        self.ev("deliver", &[ni as u64, fi.map(|f| f as u64).unwrap_or(9999)], &b);

        let (off, end) = self.stage(ni, &b, true);
        // how much of its response buffer the driver offers: all of it, exactly what the answer
        // needs (Success answers of in-domain requests have a length fixed by C07), or — for
        // anything that is not an accepted request and so must not be answered — next to nothing
        let full = self.nodes[ni].resp.len();
        let mut rcap = full;
        if !self.draining {
            let v0 = ref_decode(&b);
            let pr0 = parse(&b);
            let is_request = matches!(v0, RefVerdict::Accept { mtype, .. } if mtype == T_CONTROL) && pr0.rq;
            let pick = self.ch.choose(8);
            if is_request {
                let sets = &self.nodes[ni].cfg.vplain;
                let need = match pr0.cmd {
                    0x01 if n == 14 && b[11] <= 1 => Some(16),
                    0x02 if n == 12 => Some(16),
                    0x03 if n == 12 => Some(29),
                    0x04 if n == 13 => Some(18),
                    0x05 if n == 12 => Some(14 + self.nodes[ni].cfg.types.len()),
                    0x06 if n == 13 && (b[11] as usize) < sets.len() => Some(if sets[b[11] as usize].0 == 1 { 21 } else { 19 }),
                    _ => None,
                };
                if let Some(k) = need {
                    if pick == 7 {
                        rcap = k.min(full);
                        self.st.probe("response-buffer-exact-fit");
                    } else if pick == 6 {
                        rcap = (k + 1).min(full);
                    }
                }
            } else if pick == 7 {
                rcap = self.ch.choose(13) as usize;
                self.st.probe("response-buffer-tiny-for-non-request");
            }
        }
        let mode = self.nodes[ni].cfg.call_mode;
        let mut d = Dec::Panic(PanicKind::Other);
        if mode == 0 {
            d = real::decode(&self.nodes[ni].ctx, &self.nodes[ni].rxbuf[off..end]);
        }
        let (p, rlen) = {
            let node = &mut self.nodes[ni];
            real::process(&node.ctx, &node.rxbuf[off..end], &mut node.resp[..rcap])
        };
        if p.is_panic() && rcap < 64 {
            // a response buffer under 64 bytes is outside C10's claim, and nothing else can be said
            // about a call that did not return: forget what we knew about this node's EID
            self.st.probe("panic-with-small-response-buffer-ignored");
            {
                // the twin still gets the same calls
                let node = &mut self.nodes[ni];
                node.twin_rx[off..end].copy_from_slice(&b[..end - off]);
                if mode == 0 {
                    let _ = real::decode(&node.twin, &node.twin_rx[off..end]);
                }
                let _ = real::process(&node.twin, &node.twin_rx[off..end], &mut node.twin_resp[..rcap]);
            }
            let node = &mut self.nodes[ni];
            node.m_eid_req = None;
            node.m_eid_resp = None;
            let tw_eids = {
                use libmctp::mctp_traits::SMBusMCTPRequestResponse;
                (node.ctx.get_request().get_eid(), node.ctx.get_response().get_eid())
            };
            {
                use libmctp::mctp_traits::SMBusMCTPRequestResponse;
                node.twin.get_request().set_eid(tw_eids.0);
                node.twin.get_response().set_eid(tw_eids.1);
            }
            return;
        }
        if mode == 1 {
            d = real::decode(&self.nodes[ni].ctx, &self.nodes[ni].rxbuf[off..end]);
        } else if mode == 2 {
            // the driver never calls decode_packet on this node; the oracles' decode result comes
            // from a throw-away context with the same configuration (the outcome depends on the bytes alone)
            let nc = self.nodes[ni].cfg;
            let scratch = libmctp::smbus::MCTPSMBusContext::new(nc.addr, &nc.types, &nc.vendors);
            d = real::decode(&scratch, &self.nodes[ni].rxbuf[off..end]);
            self.st.probe("delivery-process-only");
        }
        self.st.lib_calls += 2;
        if self.tracing() {
            self.tr(format!("   node{} decode_packet -> {} ; process_packet -> {} response={:?}", ni, d.show(), p.show(), rlen));
        }
        if pec_ok(&b) {
            // the twin gets the same calls in the same order
            let (pt, rt, same_resp) = {
                let node = &mut self.nodes[ni];
                node.twin_rx[off..end].copy_from_slice(&b[..end - off]);
                if mode == 0 {
                    let _ = real::decode(&node.twin, &node.twin_rx[off..end]);
                }
                let (pt, rt) = real::process(&node.twin, &node.twin_rx[off..end], &mut node.twin_resp[..rcap]);
                if mode == 1 {
                    let _ = real::decode(&node.twin, &node.twin_rx[off..end]);
                }
                let same = match (rlen, rt) {
                    (Some(a), Some(bb)) if a == bb && a <= node.resp.len() && a <= node.twin_resp.len() => node.resp[..a] == node.twin_resp[..a],
                    (None, None) => true,
                    _ => false,
                };
                (pt, rt, same)
            };
            let shown = |l: Option<usize>, ok: bool| format!("response={:?}{}", l, if ok { "" } else { " (bytes differ)" });
            self.twin_compare(ni, "process_packet", format!("{} {}", p.show(), shown(rlen, true)), format!("{} {}", pt.show(), shown(rt, same_resp)), &b);
        }
        self.dg.u64(rlen.map(|l| l as u64 + 1).unwrap_or(0));
        self.dg.byte(d.is_ok() as u8);

        self.decode_oracles(ni, &b, d, fi);

        // ---- C10 on process_packet
        self.eval(Prop::C10, "C10/process_packet-returns");
        if let Dec::Panic(k) = p {
            self.c10_panic(ni, "process_packet", &b, k);
        }

        let pec = pec_ok(&b);
        let resp_now_same = self.nodes[ni].resp == resp_before;
        // ---- C02 on process_packet
        if p.is_ok() && !pec {
            self.viol(
                Prop::C02,
                "C02/accept/process_packet".into(),
                format!("process_packet accepted {} whose PEC is wrong (CRC-8 of the rest is {:#04x})", hex(&b), if n > 0 { crc8(&b[..n - 1]) } else { 0 }),
            );
        }
        if let Some(f) = fi {
            let fr = &self.frames[f];
            if fr.burst_only && fr.orig.len() == n && pec_ok(&fr.orig) && fr.bytes == b && p.is_ok() {
                let msg = format!("process_packet accepted a valid packet corrupted in <= 8 consecutive bits: sent {} received {}", hex(&self.frames[f].orig), hex(&b));
                self.viol(Prop::C02, "C02/burst/process_packet".into(), msg);
            }
        }
        if !pec {
            // (c) no response bytes, no state change (the model is not advanced: later answers are still checked against it)
            self.eval(Prop::C02, "C02/bad-pec-has-no-effect");
            self.nodes[ni].corrupted_seen = true;
            if rlen.is_some() {
                self.viol(Prop::C02, "C02/effect/response-produced".into(), format!("process_packet produced a response for bad-PEC input {}", hex(&b)));
            }
            if !resp_now_same {
                self.viol(Prop::C02, "C02/effect/response-buffer".into(), format!("process_packet changed the response buffer for bad-PEC input {}", hex(&b)));
            }
            let (rq, rs) = {
                use libmctp::mctp_traits::SMBusMCTPRequestResponse;
                let nd = &self.nodes[ni];
                (nd.ctx.get_request().get_eid(), nd.ctx.get_response().get_eid())
            };
            if (rq, rs) != eids_before {
                self.viol(
                    Prop::C02,
                    "C02/effect/eid".into(),
                    format!("EID changed from req={:#04x}/resp={:#04x} to req={:#04x}/resp={:#04x} by bad-PEC input {}", eids_before.0, eids_before.1, rq, rs, hex(&b)),
                );
            }
        }

        // ---- C11: processing agrees with decoding
        if !d.is_panic() && !p.is_panic() {
            self.eval(Prop::C11, "C11/process-vs-decode");
            let pr = parse(&b);
            // (a process-only driver has no decode result from the same context to compare with:
            // the scratch decode would turn a context-dependent decoder, C09's matter, into a C11 alarm)
            if d != p && mode != 2 {
                let cls = if d.is_ok() { type_name(pr.mtype, pr.rq) } else { "rejected" };
                self.viol(
                    Prop::C11,
                    format!("C11/result-differs/{}", cls),
                    format!("node{}: decode_packet -> {} but process_packet -> {} for {}", ni, d.show(), p.show(), hex(&b)),
                );
            }
            let is_req = matches!(d, Dec::Ok { mtype, .. } if mtype == T_CONTROL) && n > 9 && b[9] & 0x80 != 0;
            match rlen {
                Some(l) => {
                    if !is_req && mode != 2 {
                        self.viol(
                            Prop::C11,
                            "C11/response-for-non-request".into(),
                            format!("node{}: process_packet reported a {}-byte response for something that is not an accepted control request: {}", ni, l, hex(&b)),
                        );
                    }
                    let cap = resp_before.len();
                    if l > cap {
                        self.viol(Prop::C11, "C11/length-beyond-buffer".into(), format!("reported response length {} > buffer {}", l, cap));
                    } else if self.nodes[ni].resp[l..] != resp_before[l..] {
                        let at = (l..cap).find(|&i| self.nodes[ni].resp[i] != resp_before[i]).unwrap_or(l);
                        self.viol(
                            Prop::C11,
                            "C11/buffer-touched-beyond-length".into(),
                            format!("node{}: response length {} but response buffer byte {} changed, request {}", ni, l, at, hex(&b)),
                        );
                    }
                    if is_req {
                        self.st.probe("request-answered");
                    }
                }
                None => {
                    if !d.is_ok() {
                        self.st.probe("c11-rejected-input");
                    } else if !is_req {
                        self.st.probe("c11-accepted-non-request");
                    }
                    if !resp_now_same {
                        let at = (0..resp_before.len()).find(|&i| self.nodes[ni].resp[i] != resp_before[i]).unwrap_or(0);
                        let cls = if d.is_ok() { type_name(pr.mtype, pr.rq) } else { "rejected" };
                        self.viol(
                            Prop::C11,
                            format!("C11/buffer-touched-without-response/{}", cls),
                            format!("node{}: no response reported but response buffer byte {} changed; input {}", ni, at, hex(&b)),
                        );
                    }
                }
            }
        }

        // ---- reference model (C13) and answer oracles (C12 C13 C14 C15)
        let pr = parse(&b);
        // only requests of the shape this library itself emits: framed consistently, addressed to this
        // node, datagram and reserved bits clear, exact request length (what a responder does with a
        // datagram or a mis-addressed request is left open by the properties)
        let plain_request = pr.control
            && pr.rq
            && pec
            && pr.hdr_ok
            && !pr.ic
            && n >= 12
            && b[1] == 0x0F
            && b[2] as usize == n - 4
            && b[0] == own << 1
            && b[5] == own
            && b[3] & 1 == 1
            && b[6] == b[3] >> 1
            && b[7] == 0xC8
            && b[9] & 0x60 == 0;
        let accepted_req = p.is_ok() && rlen.is_some() && pr.control && pr.rq && n >= 12;
        let mut cause: &'static str = if !pec {
            // C13: "rejected or corrupted packets ... leave it as it was" — whatever the library's verdict
            "after-corrupted-packet"
        } else if !d.is_ok() {
            "after-rejected-packet"
        } else if !pr.control {
            "after-vendor-or-spdm-message"
        } else if !pr.rq {
            "after-control-response"
        } else {
            "after-other-command"
        };
        let resp: Vec<u8> = match rlen {
            Some(l) if l <= self.nodes[ni].resp.len() => self.nodes[ni].resp[..l].to_vec(),
            _ => Vec::new(),
        };
        if pr.control && pr.rq && pr.cmd == 0x01 && n >= 14 && pec && p.is_ok() && (!plain_request || (b[11] > 3 && b[11] & 3 <= 1) || (rlen.is_none() && rcap < 64)) {
            // a Set Endpoint ID request outside the shape the property speaks about (datagram / reserved
            // bits, foreign destination, bridged, reserved bits in the operation byte, or a response buffer
            // below the 64 bytes C10 names): whether it assigns is left open — the model follows what the
            // context reports afterwards
            use libmctp::mctp_traits::SMBusMCTPRequestResponse;
            let (aq, ar) = {
                let node = &self.nodes[ni];
                (node.ctx.get_request().get_eid(), node.ctx.get_response().get_eid())
            };
            let (op, e) = (b[11], b[12]);
            // ... but *if* the library did assign the carried EID, "an accepted assignment is answered
            // with Success, status accepted, and the new EID" applies whatever the request looked like
            if (op == 0 || op == 1) && (0x01..=0xFE).contains(&e) && (aq, ar) == (e, e) && eids_before != (e, e) && rcap >= 64 {
                self.eval(Prop::C13, "C13/assignment-answer");
                let ok = rlen.is_some() && resp.len() >= 16 && resp[11] == 0 && (resp[12] >> 4) & 3 == 0 && resp[13] == e;
                if !ok {
                    self.viol(
                        Prop::C13,
                        "C13/assign-answer/assigned-but-not-answered-with-success".into(),
                        format!("node{}: request {} changed the EID to {:#04x} but was answered with {:?}", ni, hex(&b), e, if rlen.is_some() { hex(&resp) } else { "nothing".to_string() }),
                    );
                }
            }
            let node = &mut self.nodes[ni];
            node.m_eid_req = Some(aq);
            node.m_eid_resp = Some(ar);
            self.st.probe("set-eid-outside-property-shape-model-follows-context");
            cause = "after-out-of-shape-set-eid";
        } else if accepted_req && pr.cmd == 0x01 && n >= 14 && pec {
            let (op, e) = (b[11], b[12]);
            if op == 0 || op == 1 {
                cause = "after-assignment";
                if (0x01..=0xFE).contains(&e) {
                    let node = &mut self.nodes[ni];
                    if node.assigned_once && node.m_eid_resp != Some(e) {
                        self.st.probe("reassign-different-value");
                    }
                    let node = &mut self.nodes[ni];
                    if node.corrupted_seen {
                        self.st.probe("assignment-after-corruption");
                    }
                    let node = &mut self.nodes[ni];
                    node.m_eid_req = Some(e);
                    node.m_eid_resp = Some(e);
                    node.assigned_once = true;
                    self.eval(Prop::C13, "C13/assignment-answer");
                    if resp.len() >= 16 {
                        if resp[11] != 0 {
                            self.viol(Prop::C13, "C13/assign-answer/completion-code".into(), format!("accepted assignment {} answered with completion code {}: {}", hex(&b), resp[11], hex(&resp)));
                        }
                        if (resp[12] >> 4) & 3 != 0 {
                            self.viol(Prop::C13, "C13/assign-answer/status".into(), format!("accepted assignment {} answered with status byte {:#04x}: {}", hex(&b), resp[12], hex(&resp)));
                        }
                        if resp[13] != e {
                            self.viol(
                                Prop::C13,
                                "C13/assign-answer/eid".into(),
                                format!("assignment of {:#04x} answered with EID {:#04x}: request {} response {}", e, resp[13], hex(&b), hex(&resp)),
                            );
                        }
                    } else {
                        self.viol(Prop::C13, "C13/assign-answer/short".into(), format!("assignment answer too short: {}", hex(&resp)));
                    }
                } else {
                    // reserved EID accepted: outside the property's quantifier
                    let node = &mut self.nodes[ni];
                    node.m_eid_req = None;
                    node.m_eid_resp = None;
                    self.st.probe("model-eid-unknown-after-out-of-domain-assignment");
                }
            } else if op == 3 {
                cause = "after-set-discovered-flag";
                self.eval(Prop::C13, "C13/discovered-flag-answer");
                if resp.len() < 13 || resp[11] != 0x02 {
                    self.viol(
                        Prop::C13,
                        "C13/discovered-flag/completion-code".into(),
                        format!("Set-Discovered-Flag request {} answered with {}", hex(&b), hex(&resp)),
                    );
                }
            }
        } else if p.is_panic() && pr.control && pr.rq && pr.cmd == 0x01 && pec && n == 14 && (b[11] == 0 || b[11] == 1) {
            // the library crashed half way through an assignment: state unknown
            let node = &mut self.nodes[ni];
            node.m_eid_req = None;
            node.m_eid_resp = None;
        }
        if accepted_req && pr.cmd == 0x02 {
            self.eval(Prop::C13, "C13/get-eid-answer");
            let (mq, ms) = (self.nodes[ni].m_eid_req, self.nodes[ni].m_eid_resp);
            if resp.len() >= 14 {
                if let (Some(q), Some(s)) = (mq, ms) {
                    // the statement constrains the EID a Get Endpoint ID response *reports*
                    if resp[11] == 0 && resp[12] != s && resp[12] != q {
                        self.viol(
                            Prop::C13,
                            "C13/get-eid-answer/eid".into(),
                            format!("node{}: Get Endpoint ID answered {} but the EID is {:#04x}", ni, hex(&resp), s),
                        );
                    }
                }
            } else if resp.len() < 13 || resp[11] == 0 {
                self.viol(Prop::C13, "C13/get-eid-answer/short".into(), format!("Get Endpoint ID answer too short: {}", hex(&resp)));
            }
        }
        // ---- in-domain requests must be answered at all (C13 / C14 / C15 say "is answered with ...")
        if ((p.is_ok() && rlen.is_none()) || p.is_panic()) && rcap >= 64 && plain_request {
            let sets = self.nodes[ni].cfg.vplain.len();
            let missing: Option<(Prop, &'static str)> = match pr.cmd {
                0x01 if n == 14 && (b[11] == 0 || b[11] == 1) && (0x01..=0xFE).contains(&b[12]) => Some((Prop::C13, "C13/assign-answer/missing")),
                0x01 if n == 14 && b[11] == 3 => Some((Prop::C13, "C13/discovered-flag/missing")),
                0x03 if n == 12 => Some((Prop::C15, "C15/uuid/missing")),
                0x04 if n == 13 => Some((Prop::C15, "C15/version/missing")),
                0x05 if n == 12 => Some((Prop::C15, "C15/message-types/missing")),
                0x06 if n == 13 && (b[11] as usize) < sets => Some((Prop::C14, "C14/answer/missing")),
                _ => None,
            };
            if let Some((prop, sig)) = missing {
                self.eval(prop, "request-must-be-answered");
                let how = if p.is_panic() { "process_packet panicked" } else { "process_packet returned no response" };
                self.viol(prop, sig.into(), format!("node{}: in-domain request {} was not answered ({})", ni, hex(&b), how));
            }
        }
        self.check_state(ni, cause);

        if let Some(l) = rlen {
            // C04 on a packet the library generated itself: framing, byte count, reported length, probe
            if l == resp.len() && l >= 4 {
                self.eval(Prop::C04, "C04/generated-response-framing");
                let probe_ok = self.get_length_staged(ni, &resp) == Len::Ok(l);
                let chk: [(&str, bool); 5] = [
                    ("write-bit", resp[0] & 1 == 0),
                    ("command-code", resp[1] == 0x0F),
                    ("byte-count", resp[2] as usize == l - 4),
                    ("src-addr", resp[3] == (own << 1) | 1),
                    ("probe", probe_ok),
                ];
                for (name, ok) in chk {
                    if !ok {
                        self.viol(
                            Prop::C04,
                            format!("C04/generated-response/{}", name),
                            format!("node{} (addr {:#04x}) generated {} for request {}", ni, own, hex(&resp), hex(&b)),
                        );
                    }
                }
            }
        }
        if accepted_req {
            self.c07_process(ni, &b, &resp);
            self.c12_wire(ni, own, &b, &resp, n_sets);
            self.identity_answers(ni, &b, &resp);
        }

        // ---- the response goes back on the bus
        if let Some(l) = rlen {
            if l <= self.nodes[ni].resp.len() && l > 0 {
                let (cause_l, clean, req) = match fi {
                    Some(f) => {
                        let fr = &self.frames[f];
                        // "clean" = an unaltered request of a real node inside C12's quantifier (SMBus source
                        // address and source EID name the same requester — not so for bridged requests)
                        let in_c12 = b.len() >= 12 && b[3] & 1 == 1 && b[6] == b[3] >> 1;
                        (Some(fr.logical), fr.intact() && fr.src.is_some() && fr.req.is_some() && in_c12, fr.req.clone())
                    }
                    None => (None, false, None),
                };
                let logical = self.next_logical;
                self.next_logical += 1;
                // C01 also covers what the response encoders produce when process_packet drives them:
                // delivered unaltered, a generated answer to one of the six answerable commands decodes
                // to its payload (Success) or to the unsuccessful-completion error with its code
                let (r_api, r_expect) = if resp.len() >= 13 && (1..=6).contains(&resp[10]) && resp[9] & 0x80 == 0 {
                    let api = crate::calls::RESP_NAMES[(resp[10] - 1) as usize];
                    let e = if resp[11] == 0 { Expect::Ok { mtype: T_CONTROL, start: 12 } } else { Expect::ErrCc(resp[11]) };
                    (api, if resp[11] <= 5 { Some(e) } else { None })
                } else {
                    ("process_packet.response", None)
                };
                let fr = Frame {
                    orig: resp.clone(),
                    bytes: resp.clone(),
                    src: Some(ni),
                    origin: Origin::Response,
                    api: r_api,
                    expect: r_expect,
                    n_alter: 0,
                    burst_only: false,
                    logical,
                    cause: cause_l,
                    cause_clean: clean,
                    req,
                    force_dest: None,
                };
                self.push_frame(fr);
            }
        }

        // ---- requester bookkeeping for control responses addressed to us
        if d.is_ok() && pr.control && !pr.rq && n >= 13 {
            self.on_response(ni, &b, fi);
        }

        if self.cfg.snoop {
            self.snoop(ni, &b, fi, Some(d));
        }

        // firmware reset after a crash (N1)
        if (d.is_panic() || p.is_panic()) && !self.draining && self.ch.chance(self.cfg.rate[F_PANIC_RESTART], 1000) {
            self.op_restart(ni, true);
        }
    }

    // ------------------------------------------------------------ C07 on responses written by process_packet

    /// marshalling of a generated response: header bits, command, fixed field sizes, and the EID
    /// field equal to what the context has stored *now* (whether that value is right is C13's matter)
    fn c07_process(&mut self, ni: usize, req: &[u8], r: &[u8]) {
        use libmctp::mctp_traits::SMBusMCTPRequestResponse;
        let cmd = req[10];
        if !(1..=6).contains(&cmd) {
            return;
        }
        self.eval(Prop::C07, "C07/generated-response-layout");
        let len = r.len();
        if len < 13 {
            self.viol(Prop::C07, "C07/process-response/too-short".into(), format!("response {} to {}", hex(r), hex(req)));
            return;
        }
        if r[9] & 0xE0 != 0 {
            self.viol(Prop::C07, "C07/process-response/control-header-bits".into(), format!("response {} to {}", hex(r), hex(req)));
        }
        if r[10] != cmd {
            self.viol(Prop::C07, "C07/process-response/command-code".into(), format!("response {} to {}", hex(r), hex(req)));
        }
        if r[11] != 0 {
            return;
        }
        let (sq, ss) = {
            let nd = &self.nodes[ni];
            (nd.ctx.get_request().get_eid(), nd.ctx.get_response().get_eid())
        };
        let bad: Option<&'static str> = match cmd {
            1 => {
                if len != 16 {
                    Some("set-eid-length")
                } else if r[13] != ss && r[13] != sq {
                    Some("set-eid-current-eid")
                } else if r[14] != 0 {
                    Some("set-eid-pool-size")
                } else {
                    None
                }
            }
            2 => {
                if len != 16 {
                    Some("get-eid-length")
                } else if r[12] != ss && r[12] != sq {
                    Some("get-eid-current-eid")
                } else {
                    None
                }
            }
            3 => (len != 29).then_some("uuid-length"),
            4 => (req.len() == 13 && (len != 18 || r[12..17] != [1, 0xF1, 0xF3, 0xF1, 0x00])).then_some("version-entry"),
            5 => (len < 14 || r[12] as usize != len - 14).then_some("message-type-count-vs-list"),
            // next selector then the vendor ID field (its shape is C14's matter)
            _ => (len < 14).then_some("vendor-answer-without-selector"),
        };
        if let Some(w) = bad {
            self.viol(
                Prop::C07,
                format!("C07/process-response/{}", w),
                format!("node{}: response {} to request {} (stored EID req={:#04x} resp={:#04x})", ni, hex(r), hex(req), sq, ss),
            );
        }
    }

    // ------------------------------------------------------------ C12

    fn c12_wire(&mut self, ni: usize, own: u8, req: &[u8], r: &[u8], n_sets: usize) {
        let cmd = req[10];
        // domain of the property
        if !(1..=6).contains(&cmd) || req[6] != req[3] >> 1 || req[3] & 1 != 1 {
            return;
        }
        // every request the library chose to answer is in scope; Set Endpoint ID only with the
        // EIDs the property quantifies over
        if cmd == 1 && (req.len() != 14 || !(0x01..=0xFE).contains(&req[12])) {
            return;
        }
        if cmd == 6 && req.len() != 13 {
            return;
        }
        if cmd == 6 && req[11] as usize >= n_sets {
            self.st.probe("c12-out-of-range-selector-answered");
        }
        self.eval(Prop::C12, "C12/wire-response-vs-request");
        if req[9] & 0x1F != 0 {
            self.st.probe("request-with-nonzero-instance-id-answered");
        }
        if req[3] >> 1 >= 0x40 {
            self.st.probe("requester-address-ge-0x40");
        }
        let len = r.len();
        if len < 13 {
            self.viol(Prop::C12, "C12/wire/too-short".into(), format!("response {} to request {}", hex(r), hex(req)));
            return;
        }
        let checks: [(&str, bool); 15] = [
            ("dest-addr", r[0] == req[3] & 0xFE),
            ("smbus-command-code", r[1] == 0x0F),
            ("byte-count", r[2] as usize == len - 4),
            ("src-addr", r[3] == (own << 1) | 1),
            ("header-version", r[4] == 0x01),
            ("dest-eid", r[5] == req[6]),
            ("src-eid", r[6] == own),
            ("som-eom-seq", r[7] & 0xF0 == 0xC0),
            ("message-type", r[8] == 0x00),
            ("request-bit", r[9] & 0x80 == 0),
            ("instance-id", r[9] & 0x1F == req[9] & 0x1F),
            ("command", r[10] == req[10]),
            ("pec", pec_ok(r)),
            ("reported-length", real_len_ok(self, ni, r)),
            ("completion-code-present", len >= 13),
        ];
        for (name, ok) in checks {
            if !ok {
                self.viol(
                    Prop::C12,
                    format!("C12/wire/{}", name),
                    format!("node{} (addr {:#04x}) answered request {} with {} : field '{}' is wrong", ni, own, hex(req), hex(r), name),
                );
            }
        }
    }

    /// requester side: in-band correlation of a delivered response (C12 history) and walk progress (C14)
    fn on_response(&mut self, ni: usize, b: &[u8], fi: Option<usize>) {
        let f = match fi {
            Some(f) => f,
            None => return,
        };
        let fr = self.frames[f].clone();
        if fr.origin != Origin::Response || !fr.intact() || !fr.cause_clean {
            self.st.probe("response-not-attributable-ignored");
            return;
        }
        let meta = match &fr.req {
            Some(m) => m.clone(),
            None => return,
        };
        let src_addr = b[3] >> 1;
        let iid = b[9] & 0x1F;
        let cmd = b[10];
        self.eval(Prop::C12, "C12/history-correlation");
        if meta.requester != ni {
            self.viol(
                Prop::C12,
                "C12/history/delivered-to-wrong-node".into(),
                format!("response {} to a request of node{} was delivered to node{}", hex(b), meta.requester, ni),
            );
            return;
        }
        let any = self.nodes[ni].issued.iter().any(|&(d, _, c)| d == src_addr && c == cmd);
        let exact = self.nodes[ni].issued.iter().any(|&(d, i, c)| d == src_addr && c == cmd && i == iid);
        if !any {
            self.viol(
                Prop::C12,
                "C12/history/uncorrelated".into(),
                format!("node{} received response {} but never sent command {:#04x} to address {:#04x}", ni, hex(b), cmd, src_addr),
            );
        } else if !exact {
            self.viol(
                Prop::C12,
                "C12/history/instance-id".into(),
                format!("node{} received response {} with instance ID {} but no request to {:#04x} with command {:#04x} used that instance ID", ni, hex(b), iid, src_addr, cmd),
            );
        }
        // complete the outstanding request by ground truth (the delivery that caused this response)
        let cause = match fr.cause {
            Some(c) => c,
            None => return,
        };
        let oi = match self.nodes[ni].out.iter().position(|o| o.logical == cause) {
            Some(i) => i,
            None => return,
        };
        if self.nodes[ni].out[oi].done {
            self.st.probe("duplicate-or-late-response-ignored");
            return;
        }
        let later_done = self.nodes[ni].out.iter().skip(oi + 1).any(|o| o.done);
        if later_done {
            self.st.probe("response-overtook");
        }
        self.nodes[ni].out[oi].done = true;
        self.st.probe("request-completed");
        let o = self.nodes[ni].out[oi].clone();
        if let Some(w) = o.walk {
            if self.walks[w].done || self.walks[w].abandoned || self.walks[w].cur != o.selector {
                return;
            }
            if b.len() < 14 || b[11] != 0 {
                self.walks[w].abandoned = true;
                return;
            }
            let next = b[12];
            let field = b[13..b.len() - 1].to_vec();
            self.walks[w].seen.push((o.selector, field));
            self.walks[w].exchanges += 1;
            if next == 0xFF {
                self.walks[w].done = true;
                self.st.probe("walk-completed");
                self.st.probe("last-selector");
            } else if self.walks[w].seen.len() > 40 {
                self.walks[w].done = true; // runaway walk: judged at the end of the run
            } else {
                self.walks[w].cur = next;
                let resp = self.walks[w].responder;
                self.send_request(ni, resp, 5, Some((w, next)));
            }
        }
    }

    // ------------------------------------------------------------ C14 / C15 per answer

    fn identity_answers(&mut self, ni: usize, req: &[u8], r: &[u8]) {
        let cmd = req[10];
        let len = r.len();
        match cmd {
            0x03 => {
                if req.len() != 12 {
                    return;
                }
                self.eval(Prop::C15, "C15/uuid-answer");
                let u = self.nodes[ni].m_uuid;
                if u != [0u8; 16] {
                    self.st.probe("uuid-nonzero-reported");
                }
                if len != 29 || r[11] != 0 || r[12..28] != u {
                    self.viol(Prop::C15, "C15/uuid".into(), format!("node{}: Get Endpoint UUID answered {} ; installed UUID is {}", ni, hex(r), hex(&u)));
                }
            }
            0x04 => {
                if req.len() != 13 {
                    return;
                }
                self.eval(Prop::C15, "C15/version-answer");
                if len != 18 || r[11] != 0 || r[12..17] != [1, 0xF1, 0xF3, 0xF1, 0x00] {
                    self.viol(Prop::C15, "C15/version".into(), format!("node{}: Get MCTP Version Support answered {}", ni, hex(r)));
                }
            }
            0x05 => {
                if req.len() != 12 {
                    return;
                }
                self.eval(Prop::C15, "C15/message-types-answer");
                let t = self.nodes[ni].cfg.types.clone();
                if t.len() >= 29 {
                    self.st.probe("message-types-29-or-30");
                }
                let ok = len == 12 + 2 + t.len() && r[11] == 0 && r[12] as usize == t.len() && r[13..13 + t.len()] == t[..];
                if !ok {
                    self.viol(
                        Prop::C15,
                        "C15/message-types".into(),
                        format!("node{}: Get Message Type Support answered {} ; configured {} types: {}", ni, hex(r), t.len(), hex(&t)),
                    );
                }
            }
            0x06 => {
                if req.len() != 13 {
                    return;
                }
                let sel = req[11] as usize;
                let sets = &self.nodes[ni].cfg.vplain;
                if sel >= sets.len() {
                    return;
                }
                let want_field = vendor_field(sets[sel]);
                let iana = sets[sel].0 == 1;
                let want_next = if sel + 1 == sets.len() { 0xFF } else { (sel + 1) as u8 };
                self.eval(Prop::C14, "C14/answer");
                if iana {
                    self.st.probe("iana-set");
                }
                if sel + 1 == sets.len() {
                    self.st.probe("last-selector-queried");
                }
                if len < 14 {
                    self.viol(Prop::C14, "C14/answer/short".into(), format!("selector {} answered {}", sel, hex(r)));
                    return;
                }
                if r[11] != 0 {
                    self.viol(Prop::C14, "C14/answer/completion-code".into(), format!("node{}: selector {} of {} answered {}", ni, sel, sets.len(), hex(r)));
                }
                if r[12] != want_next {
                    self.viol(
                        Prop::C14,
                        "C14/answer/next-selector".into(),
                        format!("node{}: selector {} of {} sets answered next selector {:#04x}, expected {:#04x}: {}", ni, sel, sets.len(), r[12], want_next, hex(r)),
                    );
                }
                if r[13..len - 1] != want_field[..] {
                    self.viol(
                        Prop::C14,
                        format!("C14/answer/field-{}", if iana { "iana" } else { "pci" }),
                        format!("node{}: selector {} answered vendor field {} ; configured set {:?} encodes as {}", ni, sel, hex(&r[13..len - 1]), self.nodes[ni].cfg.vplain[sel], hex(&want_field)),
                    );
                }
            }
            _ => {}
        }
    }

    // ------------------------------------------------------------ history oracles at the end of a run

    pub fn end_of_run_oracles(&mut self) {
        for wi in 0..self.walks.len() {
            let w = self.walks[wi].clone();
            if w.abandoned {
                self.st.probe("walk-abandoned");
                continue;
            }
            if !w.done {
                self.st.probe("walk-unfinished-at-end");
                if !self.drain_guard_hit {
                    // bounded liveness: once faults have stopped (the drain phase injects none) a walk
                    // that was not abandoned by its requester's retry budget terminates
                    self.eval(Prop::C14, "C14/walk-terminates-after-faults-stop");
                    self.viol(
                        Prop::C14,
                        "C14/walk/stalled-after-faults-stopped".into(),
                        format!("walk {} of node{} over node{} neither finished nor was abandoned although the bus drained without faults; selectors seen so far {:?}", wi, w.requester, w.responder, w.seen.iter().map(|s| s.0).collect::<Vec<u8>>()),
                    );
                }
                continue;
            }
            self.eval(Prop::C14, "C14/walk");
            let sets = self.nodes[w.responder].cfg.vplain.clone();
            if sets.len() >= 2 {
                self.st.probe("walk-over-several-sets");
            }
            let sels: Vec<u8> = w.seen.iter().map(|s| s.0).collect();
            let want: Vec<u8> = (0..sets.len() as u8).collect();
            if sels != want {
                self.viol(
                    Prop::C14,
                    "C14/walk/selectors".into(),
                    format!("walk {} of node{} over node{}'s {} sets visited selectors {:?}", wi, w.requester, w.responder, sets.len(), sels),
                );
                continue;
            }
            for (i, (_, field)) in w.seen.iter().enumerate() {
                let wf = vendor_field(sets[i]);
                if *field != wf {
                    self.viol(
                        Prop::C14,
                        "C14/walk/content".into(),
                        format!("walk {}: set {} seen as {} but configured {:?}", wi, i, hex(field), sets[i]),
                    );
                }
            }
            // bounded liveness after the last fault: counted, not asserted (see DESIGN 5/C12)
            if w.exchanges as usize <= sets.len() + 3 * (self.cfg.retries as usize + 1) {
                self.st.probe("walk-finished-within-budget");
            }
        }
        let open: usize = self.nodes.iter().map(|n| n.out.iter().filter(|o| !o.done).count()).sum();
        if open == 0 {
            self.st.probe("all-requests-settled-after-drain");
        } else {
            self.st.probe("requests-open-after-drain");
        }
    }
}

fn real_len_ok(run: &mut Run, ni: usize, r: &[u8]) -> bool {
    run.get_length_staged(ni, r) == Len::Ok(r.len())
}

pub fn type_name(t: u8, rq: bool) -> &'static str {
    match t {
        0x00 => {
            if rq {
                "control-request"
            } else {
                "control-response"
            }
        }
        0x05 => "spdm",
        0x06 => "secured",
        0x7E => "vendor-pci",
        0x7F => "vendor-iana",
        _ => "unsupported",
    }
}
