//! Independent reference code, written from the property statements and
//! DSP0236/DSP0237 only.  Shares nothing with libmctp.

/// SMBus PEC: CRC-8, polynomial x^8+x^2+x+1 (0x07), init 0, no reflection, no final XOR.
pub fn crc8(bytes: &[u8]) -> u8 {
    let mut crc: u8 = 0;
    for &b in bytes {
        crc ^= b;
        for _ in 0..8 {
            crc = if crc & 0x80 != 0 { (crc << 1) ^ 0x07 } else { crc << 1 };
        }
    }
    crc
}

pub fn pec_ok(b: &[u8]) -> bool {
    !b.is_empty() && crc8(&b[..b.len() - 1]) == b[b.len() - 1]
}

pub const T_CONTROL: u8 = 0x00;
pub const T_SPDM: u8 = 0x05;
pub const T_SECURED: u8 = 0x06;
pub const T_PCI: u8 = 0x7E;
pub const T_IANA: u8 = 0x7F;
pub const T_INVALID: u8 = 0xFF;

pub fn supported_type(t: u8) -> bool {
    matches!(t, T_CONTROL | T_SPDM | T_SECURED | T_PCI | T_IANA)
}

/// fixed request data length named by the C09 statement (None = no fixed length)
pub fn fixed_req_len(cmd: u8) -> Option<usize> {
    match cmd {
        0x01 => Some(2),
        0x04 => Some(1),
        0x06 => Some(1),
        0x07 => Some(1),
        0x08 => Some(3),
        _ => None,
    }
}

/// fixed response data length named by the C09 statement
pub fn fixed_resp_len(cmd: u8) -> Option<usize> {
    match cmd {
        0x01 => Some(3),
        0x03 => Some(16),
        0x04 => Some(5),
        _ => None,
    }
}

#[derive(Clone, Copy, Debug, PartialEq, Eq)]
pub struct Parsed {
    pub n: usize,
    pub hdr_ok: bool,
    pub ic: bool,
    pub mtype: u8,
    pub type_ok: bool,
    pub pec_ok: bool,
    pub control: bool,
    pub rq: bool,
    pub cmd: u8,
    pub cc: u8,
}

/// Field view of a byte string of at least 10 bytes (fields beyond the end read as 0).
pub fn parse(b: &[u8]) -> Parsed {
    let n = b.len();
    let g = |i: usize| if i < n { b[i] } else { 0 };
    let mtype = g(8) & 0x7F;
    Parsed {
        n,
        hdr_ok: g(4) == 0x01,
        ic: g(8) & 0x80 != 0,
        mtype,
        type_ok: supported_type(mtype),
        pec_ok: pec_ok(b),
        control: mtype == T_CONTROL,
        rq: g(9) & 0x80 != 0,
        cmd: g(10),
        cc: g(11),
    }
}

#[derive(Clone, Copy, Debug, PartialEq, Eq)]
pub enum RefVerdict {
    /// too short to hold the headers: any rejection is acceptable (outside the C09 claim)
    Short,
    Accept { mtype: u8, start: usize, end: usize },
    Reject {
        /// version / reserved / IC / unsupported type
        bad_header: bool,
        bad_pec: bool,
        /// Some(c): response with completion code c != 0
        cc: Option<u8>,
        /// a fixed length exists and the data length differs
        bad_len: bool,
    },
}

/// The reference decoder of property C09.
pub fn ref_decode(b: &[u8]) -> RefVerdict {
    let n = b.len();
    if n < 10 {
        return RefVerdict::Short;
    }
    let p = parse(b);
    let bad_header = !p.hdr_ok || p.ic || !p.type_ok;
    if bad_header {
        return RefVerdict::Reject { bad_header: true, bad_pec: !p.pec_ok, cc: None, bad_len: false };
    }
    if !p.control {
        if !p.pec_ok {
            return RefVerdict::Reject { bad_header: false, bad_pec: true, cc: None, bad_len: false };
        }
        return RefVerdict::Accept { mtype: p.mtype, start: 9, end: n - 1 };
    }
    if p.rq {
        if n < 12 {
            return RefVerdict::Short;
        }
        let dl = n - 12;
        let bad_len = matches!(fixed_req_len(p.cmd), Some(l) if l != dl);
        if !p.pec_ok || bad_len {
            return RefVerdict::Reject { bad_header: false, bad_pec: !p.pec_ok, cc: None, bad_len };
        }
        RefVerdict::Accept { mtype: T_CONTROL, start: 11, end: n - 1 }
    } else {
        if n < 13 {
            return RefVerdict::Short;
        }
        let dl = n - 13;
        let cc = if p.cc != 0 { Some(p.cc) } else { None };
        let bad_len = cc.is_none() && matches!(fixed_resp_len(p.cmd), Some(l) if l != dl);
        if !p.pec_ok || bad_len || cc.is_some() {
            return RefVerdict::Reject { bad_header: false, bad_pec: !p.pec_ok, cc, bad_len };
        }
        RefVerdict::Accept { mtype: T_CONTROL, start: 12, end: n - 1 }
    }
}

/// Build an MCTP-over-SMBus frame from raw field values, PEC from the reference CRC.
/// Used by the "foreign implementation" node and for instance-ID forging.
#[derive(Clone, Debug)]
pub struct Forge {
    pub dest: u8,
    pub src: u8,
    pub cmd_code: u8,
    pub byte_count_delta: i32,
    pub b4: u8,
    pub dest_eid: u8,
    pub src_eid: u8,
    pub flags: u8,
    pub b8: u8,
    pub body: Vec<u8>,
    pub good_pec: bool,
}

impl Forge {
    pub fn bytes(&self) -> Vec<u8> {
        let mut f = Vec::with_capacity(10 + self.body.len());
        f.push((self.dest & 0x7F) << 1);
        f.push(self.cmd_code);
        // bytes between the byte-count field and the PEC: source address 1 + transport header 4 + type 1 + body
        let bc = (6 + self.body.len()) as i32 + self.byte_count_delta;
        f.push(bc as u8);
        f.push(((self.src & 0x7F) << 1) | 1);
        f.push(self.b4);
        f.push(self.dest_eid);
        f.push(self.src_eid);
        f.push(self.flags);
        f.push(self.b8);
        f.extend_from_slice(&self.body);
        let c = crc8(&f);
        f.push(if self.good_pec { c } else { c ^ 0x5A });
        f
    }
}

/// Replace the PEC of a frame with the reference CRC of everything before it.
pub fn fix_pec(f: &mut [u8]) {
    let n = f.len();
    if n >= 1 {
        f[n - 1] = crc8(&f[..n - 1]);
    }
}

pub fn hex(b: &[u8]) -> String {
    let mut s = String::with_capacity(b.len() * 3);
    for (i, x) in b.iter().enumerate() {
        if i > 0 {
            s.push(' ');
        }
        s.push_str(&format!("{:02x}", x));
    }
    s
}

#[cfg(test)]
mod tests {
    use super::*;
    #[test]
    fn crc_known_vectors() {
        // frames taken from the repository's own tests (spdm_messages)
        let f = [0x44, 0x0f, 0x0a, 0x69, 0x01, 0x22, 0x34, 0xc8, 0x05, 0x10, 0x84, 0x00, 0x00, 0x9c];
        assert!(pec_ok(&f));
        assert_eq!(crc8(&f), 0);
        assert_eq!(crc8(b"123456789"), 0xF4);
    }
    #[test]
    fn reference_decoder_on_frames_from_the_repository_tests() {
        // spdm_messages::test_decode_request_one / two
        let a = [0x44, 0x0f, 0x0a, 0x69, 0x01, 0x22, 0x34, 0xc8, 0x05, 0x10, 0x84, 0x00, 0x00, 0x9c];
        assert_eq!(ref_decode(&a), RefVerdict::Accept { mtype: T_SPDM, start: 9, end: 13 });
        let b = [0x68, 0x0f, 0x0e, 0x45, 0x01, 0x34, 0x22, 0xc8, 0x05, 0x10, 0x04, 0x00, 0x00, 0x00, 0x01, 0x00, 0x12, 0x97];
        assert_eq!(ref_decode(&b), RefVerdict::Accept { mtype: T_SPDM, start: 9, end: 17 });
        // one flipped bit: rejected for the PEC and nothing else
        let mut c = a;
        c[10] ^= 0x04;
        assert_eq!(ref_decode(&c), RefVerdict::Reject { bad_header: false, bad_pec: true, cc: None, bad_len: false });
        // too short to hold the headers
        assert_eq!(ref_decode(&a[..9]), RefVerdict::Short);
    }
    #[test]
    fn reference_decoder_control_rules() {
        // Set Endpoint ID request, 2 data bytes: accepted; with 3 data bytes: bad length
        let mk = |body: &[u8]| Forge { dest: 0x23, src: 0x34, cmd_code: 0x0F, byte_count_delta: 0, b4: 0x01, dest_eid: 0x23, src_eid: 0x34, flags: 0xC8, b8: 0x00, body: body.to_vec(), good_pec: true }.bytes();
        let ok = mk(&[0x80, 0x01, 0x00, 0x56]);
        assert_eq!(ref_decode(&ok), RefVerdict::Accept { mtype: T_CONTROL, start: 11, end: 13 });
        let long = mk(&[0x80, 0x01, 0x00, 0x56, 0x00]);
        assert_eq!(ref_decode(&long), RefVerdict::Reject { bad_header: false, bad_pec: false, cc: None, bad_len: true });
        // response with completion code 2
        let resp = mk(&[0x00, 0x01, 0x02, 0x00, 0x00, 0x00]);
        assert_eq!(ref_decode(&resp), RefVerdict::Reject { bad_header: false, bad_pec: false, cc: Some(2), bad_len: false });
        // version 2 in the transport header
        let mut v = Forge { dest: 0x23, src: 0x34, cmd_code: 0x0F, byte_count_delta: 0, b4: 0x02, dest_eid: 0x23, src_eid: 0x34, flags: 0xC8, b8: 0x7E, body: vec![1, 2, 3], good_pec: true }.bytes();
        assert!(matches!(ref_decode(&v), RefVerdict::Reject { bad_header: true, .. }));
        v[4] = 0x01;
        fix_pec(&mut v);
        assert_eq!(ref_decode(&v), RefVerdict::Accept { mtype: T_PCI, start: 9, end: 12 });
    }
    #[test]
    fn forge_matches_known_frame() {
        let f = Forge { dest: 0x22, src: 0x34, cmd_code: 0x0F, byte_count_delta: 0, b4: 0x01, dest_eid: 0x22, src_eid: 0x34, flags: 0xC8, b8: 0x05, body: vec![0x10, 0x84, 0x00, 0x00], good_pec: true };
        assert_eq!(f.bytes(), vec![0x44, 0x0f, 0x0a, 0x69, 0x01, 0x22, 0x34, 0xc8, 0x05, 0x10, 0x84, 0x00, 0x00, 0x9c]);
    }
}
