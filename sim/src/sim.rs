//! SimBus: one SMBus segment as a discrete-event simulation.  Real libmctp contexts
//! are the nodes; the bus, the drivers around the library and the foreign node are
//! stubs.  Everything nondeterministic is a `Chooser` draw.

use std::collections::{BTreeMap, BTreeSet, VecDeque};

use libmctp::mctp_traits::SMBusMCTPRequestResponse;
use libmctp::smbus::MCTPSMBusContext;

use crate::calls::Expect;
use crate::cfg::{Cfg, NodeCfg};
use crate::findings::Known;
use crate::profile::*;
use crate::real::{self, Len};
use crate::refmodel::hex;
use crate::rng::{Chooser, Fnv};
use crate::stats::*;

#[derive(Clone, Copy, PartialEq, Eq, Debug)]
pub enum Origin {
    /// exactly the output of a real encoder
    Encoder,
    /// real encoder output with the instance ID patched and the PEC recomputed (A9)
    Patched,
    /// written by process_packet into the node's response buffer
    Response,
    Forged,
    NonMctp,
    Garbage,
}

#[derive(Clone, Debug)]
pub struct ReqMeta {
    pub requester: usize,
    pub cmd: u8,
    pub iid: u8,
    pub walk: Option<usize>,
    pub selector: u8,
}

#[derive(Clone, Debug)]
pub struct Frame {
    pub bytes: Vec<u8>,
    pub orig: Vec<u8>,
    pub src: Option<usize>,
    pub origin: Origin,
    pub api: &'static str,
    pub expect: Option<Expect>,
    /// number of byte-altering faults applied
    pub n_alter: u8,
    pub burst_only: bool,
    /// id shared by duplicates and retries of the same logical message
    pub logical: u32,
    /// for responses: logical id of the request delivery that produced it
    pub cause: Option<u32>,
    /// for responses: was the causing request an unaltered request from a real node
    pub cause_clean: bool,
    pub req: Option<ReqMeta>,
    /// forced destination node (garbage written straight into a FIFO)
    pub force_dest: Option<usize>,
}

impl Frame {
    pub fn intact(&self) -> bool {
        self.n_alter == 0
    }
}

#[derive(Clone, Debug)]
pub struct Xfer {
    pub frame: usize,
    pub got: usize,
    pub complete: bool,
    pub discard: bool,
    /// first answer get_length gave for this transfer's (>= 3 byte) prefix
    pub first_probe: Option<Len>,
}

#[derive(Clone, Debug)]
pub struct Outst {
    pub logical: u32,
    pub dest_addr: u8,
    pub iid: u8,
    pub cmd: u8,
    pub bytes: Vec<u8>,
    pub retries_left: u8,
    pub walk: Option<usize>,
    pub selector: u8,
    pub done: bool,
}

#[derive(Clone, Debug)]
pub struct Walk {
    pub requester: usize,
    pub responder: usize,
    pub cur: u8,
    pub seen: Vec<(u8, Vec<u8>)>,
    pub done: bool,
    pub exchanges: u32,
    pub abandoned: bool,
}

pub struct Node<'c> {
    pub cfg: &'c NodeCfg,
    pub ctx: MCTPSMBusContext<'c>,
    pub rx: VecDeque<Xfer>,
    pub tx: Vec<u8>,
    pub resp: Vec<u8>,
    /// the driver's persistent receive buffer: every slice the library sees lives here, so
    /// buffer addresses repeat within a run exactly as they do in firmware (and replay exactly)
    pub rxbuf: Vec<u8>,
    pub rx_count: u32,
    /// C02 "nor any later output": a twin context that is given exactly the same calls as `ctx`
    /// except deliveries whose PEC is wrong; every later output of the two must be identical
    pub twin: MCTPSMBusContext<'c>,
    pub twin_rx: Vec<u8>,
    pub twin_resp: Vec<u8>,
    pub twin_tx: Vec<u8>,
    /// reference model: None = unknown (after an out-of-domain accepted assignment)
    pub m_eid_req: Option<u8>,
    pub m_eid_resp: Option<u8>,
    pub m_uuid: [u8; 16],
    pub out: Vec<Outst>,
    pub issued: Vec<(u8, u8, u8)>,
    pub captured: Vec<usize>,
    pub tx_used: bool,
    pub assigned_once: bool,
    pub corrupted_seen: bool,
}

pub enum Ev {
    Xmit(usize),
    Chunk { node: usize, frame: usize, upto: usize, last: bool },
    Retry { node: usize, logical: u32 },
}

#[derive(Clone, Debug)]
pub struct Violation {
    pub prop: Prop,
    pub sig: String,
    pub msg: String,
    pub step: u32,
}

pub struct Run<'c, 's> {
    pub prof: &'s Profile,
    pub cfg: &'c Cfg,
    pub ch: Chooser,
    pub st: &'s mut Stats,
    pub known: &'s Known,
    pub nodes: Vec<Node<'c>>,
    pub frames: Vec<Frame>,
    pub pending: Vec<usize>,
    pub events: BTreeMap<(u64, u64), Ev>,
    pub now: u64,
    pub seq: u64,
    pub bus_free: u64,
    pub walks: Vec<Walk>,
    pub next_logical: u32,
    pub dg: Fnv,
    pub trace: Option<Vec<String>>,
    pub violation: Option<Violation>,
    pub halt: bool,
    pub p_evals: u64,
    pub known_hit: BTreeSet<String>,
    pub steps: u32,
    pub draining: bool,
    pub any_fault: bool,
    /// byte values present in this run (for coincidence-biased draws)
    pub dict: Vec<u8>,
    pub dict_pos: usize,
    pub drain_guard_hit: bool,
}

pub struct RunOut {
    pub violation: Option<Violation>,
    pub choices: Vec<u32>,
    pub marks: Vec<u32>,
    pub cfg_end: u32,
    pub digest: u64,
    pub nontrivial: bool,
    pub known_hit: BTreeSet<String>,
    pub trace: Option<Vec<String>>,
}

/// Execute one run: a pure function of (profile, choice source, code under test).
pub fn run_one(prof: &Profile, mut ch: Chooser, st: &mut Stats, known: &Known, want_trace: bool) -> RunOut {
    let cfg = crate::cfg::draw(&mut ch, prof);
    ch.cfg_end = ch.marks.len() as u32;
    if cfg.soak {
        st.probe("soak-run-4000-steps");
    }
    if cfg.fault_free {
        st.runs_fault_free += 1;
    } else {
        st.runs_faulty += 1;
    }
    let mut run = Run::new(prof, &cfg, ch, st, known, want_trace);
    run.execute();
    run.finish()
}

impl<'c, 's> Run<'c, 's> {
    fn new(prof: &'s Profile, cfg: &'c Cfg, ch: Chooser, st: &'s mut Stats, known: &'s Known, want_trace: bool) -> Run<'c, 's> {
        let mut nodes = Vec::with_capacity(cfg.nodes.len());
        for nc in cfg.nodes.iter() {
            let mut ctx = MCTPSMBusContext::new(nc.addr, &nc.types, &nc.vendors);
            let mut m_uuid = [0u8; 16];
            if let Some(u) = nc.boot_uuid {
                ctx.set_uuid(&u);
                m_uuid = u;
            }
            let mut twin = MCTPSMBusContext::new(nc.addr, &nc.types, &nc.vendors);
            if let Some(u) = nc.boot_uuid {
                twin.set_uuid(&u);
            }
            nodes.push(Node {
                cfg: nc,
                ctx,
                twin,
                twin_rx: vec![nc.poison_resp ^ 0xFF; 2048],
                twin_resp: vec![nc.poison_resp; nc.resp_cap],
                twin_tx: vec![nc.poison_tx; nc.tx_cap],
                rx: VecDeque::new(),
                tx: vec![nc.poison_tx; nc.tx_cap],
                resp: vec![nc.poison_resp; nc.resp_cap],
                rxbuf: vec![nc.poison_resp ^ 0xFF; 2048],
                rx_count: 0,
                m_eid_req: Some(0),
                m_eid_resp: Some(0),
                m_uuid,
                out: Vec::new(),
                issued: Vec::new(),
                captured: Vec::new(),
                tx_used: false,
                assigned_once: false,
                corrupted_seen: false,
            });
        }
        let mut r = Run {
            prof,
            cfg,
            ch,
            st,
            known,
            nodes,
            frames: Vec::new(),
            pending: Vec::new(),
            events: BTreeMap::new(),
            now: 0,
            seq: 0,
            bus_free: 0,
            walks: Vec::new(),
            next_logical: 1,
            dg: Fnv::new(),
            trace: if want_trace { Some(Vec::new()) } else { None },
            violation: None,
            halt: false,
            p_evals: 0,
            known_hit: BTreeSet::new(),
            steps: 0,
            draining: false,
            any_fault: false,
            dict: Vec::new(),
            dict_pos: 0,
            drain_guard_hit: false,
        };
        for nc in cfg.nodes.iter() {
            r.dict.push(nc.addr);
            r.dict.push(nc.addr << 1);
            r.dict.push((nc.addr << 1) | 1);
            r.dict.push(nc.types.len() as u8);
            r.dict.push(nc.vplain.len() as u8);
            if let Some(t) = nc.types.last() {
                r.dict.push(*t);
            }
        }
        r.dict.extend_from_slice(&[0x0F, 0x01, 0xC8, 0x05, 0x06, 0x7E, 0x7F]);
        r.dict_pos = r.dict.len();
        if r.trace.is_some() {
            let mut s = format!(
                "config: {} nodes, bus {} us/byte, fault_free={}, snoop={}, max_outstanding={}, timeout={}us, retries={}",
                cfg.nodes.len(),
                cfg.byte_us,
                cfg.fault_free,
                cfg.snoop,
                cfg.max_out,
                cfg.timeout_us,
                cfg.retries
            );
            r.tr(std::mem::take(&mut s));
            for (i, n) in cfg.nodes.iter().enumerate() {
                r.tr(format!(
                    "  node{} addr={:#04x} types={} sets={:?} framing={} tx_cap={} resp_cap={} autopoll={} boot_uuid={} driver={} rx_offset={} single_tx_buffer={}",
                    i,
                    n.addr,
                    n.types.len(),
                    n.vplain,
                    if n.framing == 0 { "stop" } else { "length" },
                    n.tx_cap,
                    n.resp_cap,
                    n.autopoll,
                    n.boot_uuid.is_some(),
                    ["decode-then-process", "process-then-decode", "process-only"][n.call_mode.min(2) as usize],
                    if n.rx_mode == 0 { "fixed" } else { "rotating" },
                    n.shared_buf
                ));
            }
            let rates: Vec<String> = (0..NF).filter(|&k| cfg.rate[k] > 0).map(|k| format!("{}={}pm", FAULT_NAMES[k], cfg.rate[k])).collect();
            r.tr(format!("  fault rates: {}", rates.join(" ")));
        }
        r
    }

    // ---------------------------------------------------------------- logging

    #[inline]
    pub fn tracing(&self) -> bool {
        self.trace.is_some()
    }
    pub fn tr(&mut self, s: String) {
        if let Some(t) = &mut self.trace {
            t.push(s);
        }
    }
    /// record an event in the digest (always) and the trace (if enabled)
    #[inline]
    pub fn ev(&mut self, tag: &'static str, nums: &[u64], bytes: &[u8]) {
        self.seq += 1;
        self.dg.str(tag);
        for &n in nums {
            self.dg.u64(n);
        }
        self.dg.bytes(bytes);
        self.st.events += 1;
        if self.trace.is_some() {
            let s = format!("#{} t={}us {} {:?} {}", self.seq, self.now, tag, nums, hex(bytes));
            self.tr(s);
        }
    }

    #[inline]
    pub fn eval(&mut self, p: Prop, name: &'static str) {
        self.st.eval(name);
        if p == self.prof.prop {
            self.p_evals += 1;
        }
    }

    /// report an oracle failure
    pub fn viol(&mut self, p: Prop, sig: String, msg: String) {
        if p != self.prof.prop {
            if !self.known.is_open(&sig) {
                *self.st.other_prop_alarms.entry(p.id()).or_insert(0) += 1;
            }
            return;
        }
        if self.known.is_open(&sig) {
            if self.trace.is_some() {
                self.tr(format!("   KNOWN-FINDING {} : {}", sig, msg));
            }
            *self.st.known_hits.entry(sig.clone()).or_insert(0) += 1;
            self.known_hit.insert(sig);
            return;
        }
        if self.violation.is_none() {
            if self.trace.is_some() {
                self.tr(format!("   VIOLATION {} : {}", sig, msg));
            }
            self.violation = Some(Violation { prop: p, sig, msg, step: self.steps });
            self.halt = true;
        }
    }

    pub fn fault(&mut self, k: usize) {
        self.st.faults[k] += 1;
        self.any_fault = true;
    }

    // ---------------------------------------------------------------- scheduler

    fn execute(&mut self) {
        loop {
            if self.halt || self.steps >= self.cfg.budget || self.ch.exhausted() {
                break;
            }
            self.ch.mark();
            let have_ev = !self.events.is_empty();
            let have_rx = self.nodes.iter().any(|n| !n.rx.is_empty());
            let have_tx = !self.pending.is_empty();
            let w = [
                self.cfg.stop_w,
                40,
                if have_ev { 35 } else { 0 },
                if have_rx { 25 } else { 0 },
                if have_tx { 40 } else { 0 },
            ];
            match self.ch.weighted(&w) {
                0 => break,
                1 => self.app_op(),
                2 => self.fire_next(),
                3 => {
                    let cands: Vec<usize> = (0..self.nodes.len()).filter(|&i| !self.nodes[i].rx.is_empty()).collect();
                    let k = self.ch.choose(cands.len() as u32) as usize;
                    let ni = cands[k];
                    if self.nodes[ni].rx.len() >= 2 {
                        self.fault(F_LATE_POLL);
                    }
                    self.poll(ni);
                }
                _ => self.grant(),
            }
            self.steps += 1;
        }
        if !self.halt {
            self.drain();
        }
    }

    /// After the last fault: no more faults, deterministic FIFO order, bounded.
    fn drain(&mut self) {
        self.draining = true;
        let mut guard = 0;
        loop {
            guard += 1;
            if self.halt || guard > 3000 {
                break;
            }
            if !self.pending.is_empty() {
                self.grant();
                continue;
            }
            if !self.events.is_empty() {
                self.fire_next();
                continue;
            }
            if let Some(ni) = (0..self.nodes.len()).find(|&i| self.nodes[i].rx.iter().any(|x| x.complete)) {
                self.poll(ni);
                continue;
            }
            break;
        }
        if guard > 3000 {
            self.drain_guard_hit = true;
            self.st.probe("drain-guard-hit");
        }
    }

    fn finish(mut self) -> RunOut {
        if !self.halt {
            self.end_of_run_oracles();
        }
        self.st.sim_time_us += self.now;
        // abstract node states reached
        for n in self.nodes.iter() {
            let mut h = Fnv::new();
            h.u64(n.m_eid_req.map(|e| e as u64).unwrap_or(999));
            h.u64(n.m_eid_resp.map(|e| e as u64).unwrap_or(999));
            h.u64((n.m_uuid != [0u8; 16]) as u64);
            h.u64(n.out.iter().filter(|o| !o.done).count() as u64);
            self.st.states.insert(h.0);
        }
        RunOut {
            violation: self.violation,
            choices: std::mem::take(&mut self.ch.rec),
            marks: std::mem::take(&mut self.ch.marks),
            cfg_end: self.ch.cfg_end,
            digest: self.dg.0,
            nontrivial: self.p_evals > 0,
            known_hit: self.known_hit,
            trace: self.trace,
        }
    }

    // ---------------------------------------------------------------- bus

    pub fn node_by_addr(&self, addr7: u8) -> Option<usize> {
        self.nodes.iter().position(|n| n.cfg.addr == addr7)
    }

    pub fn schedule(&mut self, at: u64, e: Ev) {
        self.seq += 1;
        self.events.insert((at, self.seq), e);
    }

    /// a frame wins arbitration: draw the wire faults, then put it on the wire
    fn grant(&mut self) {
        if self.pending.is_empty() {
            return;
        }
        let k = if self.draining { 0 } else { self.ch.choose(self.pending.len() as u32) as usize };
        let fi = self.pending.remove(k);
        if self.draining {
            self.transmit(fi);
            return;
        }
        let rate = self.cfg.rate;
        // W1 drop
        if self.ch.chance(rate[F_DROP], 1000) {
            self.fault(F_DROP);
            let l = self.frames[fi].logical as u64;
            self.ev("fault.drop", &[fi as u64, l], &[]);
            return;
        }
        // W2 duplicate (master retry after a lost ACK)
        if self.ch.chance(rate[F_DUP], 1000) {
            self.fault(F_DUP);
            let dup = self.frames[fi].clone();
            self.frames.push(dup);
            let di = self.frames.len() - 1;
            let gap = 200 + 100 * self.ch.choose(50) as u64;
            self.ev("fault.duplicate", &[fi as u64, di as u64, gap], &[]);
            self.schedule(self.now + gap, Ev::Xmit(di));
        }
        self.corrupt(fi);
        // W3 delay -> reorder
        if self.ch.chance(rate[F_DELAY], 1000) {
            self.fault(F_DELAY);
            let d = 100 * (1 + self.ch.choose(300) as u64);
            self.ev("fault.delay", &[fi as u64, d], &[]);
            self.schedule(self.now + d, Ev::Xmit(fi));
            return;
        }
        self.transmit(fi);
    }

    /// byte-altering wire faults W4..W9
    fn corrupt(&mut self, fi: usize) {
        let rate = self.cfg.rate;
        let n0 = self.frames[fi].bytes.len();
        if n0 == 0 {
            return;
        }
        // W12: a bridge forwards the frame onto this segment under its own SMBus source address and
        // recomputes the PEC; the MCTP header (source EID) is untouched.  The result is a new, valid frame.
        if self.ch.chance(rate[F_BRIDGE], 1000) && n0 >= 10 && crate::refmodel::pec_ok(&self.frames[fi].bytes) {
            self.fault(F_BRIDGE);
            let a = self.vbyte() & 0x7F;
            let f = &mut self.frames[fi];
            f.bytes[3] = (a << 1) | 1;
            crate::refmodel::fix_pec(&mut f.bytes);
            f.orig = f.bytes.clone();
            f.expect = None;
            if f.origin == Origin::Encoder {
                f.origin = Origin::Patched;
            }
            f.cause_clean = false;
            self.ev("fault.bridge", &[fi as u64, a as u64], &[]);
        }
        let mut alters = 0u8;
        let mut burst = false;
        // bias: Set Endpoint ID requests and awaited responses are corrupted more often
        let hot = {
            let b = &self.frames[fi].bytes;
            b.len() >= 12 && b[8] == 0 && b[10] == 0x01
        };
        let boost = if hot { 2 } else { 1 };
        if self.ch.chance((rate[F_FLIP] * boost).min(900), 1000) {
            self.fault(F_FLIP);
            let k = 1 + self.ch.choose(3);
            for _ in 0..k {
                let n = self.frames[fi].bytes.len();
                let bit = self.ch.choose((n * 8) as u32) as usize;
                self.frames[fi].bytes[bit / 8] ^= 1 << (bit % 8);
                self.ev("fault.flip", &[fi as u64, bit as u64], &[]);
            }
            alters += 1;
        }
        if self.ch.chance((rate[F_BURST] * boost).min(900), 1000) {
            self.fault(F_BURST);
            let n = self.frames[fi].bytes.len();
            // non-zero pattern confined to 8 consecutive bit positions (MSB-first bit order)
            let start = self.ch.choose((n * 8 - 7) as u32) as usize;
            let pat = 1 + self.ch.choose(255) as u16;
            for j in 0..8 {
                if pat & (1 << j) != 0 {
                    let bit = start + j;
                    self.frames[fi].bytes[bit / 8] ^= 0x80 >> (bit % 8);
                }
            }
            self.ev("fault.burst", &[fi as u64, start as u64, pat as u64], &[]);
            alters += 1;
            burst = true;
        }
        if self.ch.chance(rate[F_GARBLE], 1000) {
            self.fault(F_GARBLE);
            let n = self.frames[fi].bytes.len();
            let k = 1 + self.ch.choose(n.min(6) as u32) as usize;
            let at = self.ch.choose((n - k + 1) as u32) as usize;
            for j in 0..k {
                let v = self.vbyte();
                self.frames[fi].bytes[at + j] = v;
            }
            self.ev("fault.garble", &[fi as u64, at as u64, k as u64], &[]);
            alters += 1;
        }
        if self.ch.chance(rate[F_MISROUTE], 1000) && self.nodes.len() > 1 {
            self.fault(F_MISROUTE);
            let t = self.ch.choose(self.nodes.len() as u32) as usize;
            let a = self.nodes[t].cfg.addr;
            self.frames[fi].bytes[0] = a << 1;
            self.ev("fault.misroute", &[fi as u64, t as u64], &[]);
            alters += 1;
        }
        if self.ch.chance(rate[F_TRUNC], 1000) {
            self.fault(F_TRUNC);
            let n = self.frames[fi].bytes.len();
            let k = self.ch.choose(n as u32) as usize;
            // keep the address byte as the forced route for an empty transfer
            if k == 0 {
                let a = self.frames[fi].bytes[0] >> 1;
                self.frames[fi].force_dest = self.node_by_addr(a);
            }
            self.frames[fi].bytes.truncate(k);
            self.ev("fault.truncate", &[fi as u64, k as u64], &[]);
            alters += 1;
        }
        if self.ch.chance(rate[F_EXTEND], 1000) {
            self.fault(F_EXTEND);
            let k = 1 + self.ch.choose(8) as usize;
            let mode = self.ch.choose(3);
            for j in 0..k {
                let v = match mode {
                    0 => 0x00,
                    1 => 0xFF,
                    _ => {
                        // stale FIFO content: bytes of an earlier frame
                        let f0 = &self.frames[fi / 2];
                        if f0.orig.is_empty() {
                            0xA5
                        } else {
                            f0.orig[j % f0.orig.len()]
                        }
                    }
                };
                self.frames[fi].bytes.push(v);
            }
            self.ev("fault.extend", &[fi as u64, k as u64, mode as u64], &[]);
            alters += 1;
        }
        if alters > 0 {
            let f = &mut self.frames[fi];
            if f.bytes != f.orig {
                f.n_alter = f.n_alter.saturating_add(alters);
                f.burst_only = burst && alters == 1 && f.n_alter == 1;
            }
        }
    }

    pub fn route(&self, fi: usize) -> Option<usize> {
        let f = &self.frames[fi];
        if let Some(d) = f.force_dest {
            return Some(d);
        }
        if f.bytes.is_empty() {
            return None;
        }
        if f.bytes[0] & 1 != 0 {
            return None;
        }
        self.node_by_addr(f.bytes[0] >> 1)
    }

    /// the frame occupies the bus; its bytes arrive at the addressed slave in chunks
    pub fn transmit(&mut self, fi: usize) {
        let dest = self.route(fi);
        let n = self.frames[fi].bytes.len();
        let t0 = self.now.max(self.bus_free);
        self.bus_free = t0 + (n as u64 + 1) * self.cfg.byte_us;
        {
            let b = self.frames[fi].bytes.clone();
            self.ev("wire", &[fi as u64, dest.map(|d| d as u64).unwrap_or(99), t0], &b);
        }
        let ni = match dest {
            Some(d) => d,
            None => {
                self.st.probe("frame-to-nobody");
                // nobody is addressed; snoopers still see the bytes
                if self.cfg.snoop {
                    let b = self.frames[fi].bytes.clone();
                    self.snoop(usize::MAX, &b, Some(fi), None);
                }
                return;
            }
        };
        // W11 chunked arrival
        let mut cuts: Vec<usize> = Vec::new();
        if !self.draining && n > 1 && self.ch.chance(self.cfg.rate[F_CHUNKED], 1000) {
            self.fault(F_CHUNKED);
            let mut at = 0usize;
            // first chunk is often tiny so that prefixes of 1..3 bytes are probed
            let first = match self.ch.choose(4) {
                0 => 1,
                1 => 2,
                2 => 3,
                _ => 1 + self.ch.choose(n as u32) as usize,
            };
            at += first.min(n);
            while at < n && cuts.len() < 5 {
                cuts.push(at);
                at += 1 + self.ch.choose((n - at) as u32) as usize;
            }
        }
        cuts.push(n);
        let last_i = cuts.len() - 1;
        for (i, &c) in cuts.iter().enumerate() {
            let at = t0 + (c as u64 + 1) * self.cfg.byte_us;
            self.schedule(at, Ev::Chunk { node: ni, frame: fi, upto: c, last: i == last_i });
        }
    }

    fn fire_next(&mut self) {
        let key = match self.events.keys().next() {
            Some(k) => *k,
            None => return,
        };
        let e = self.events.remove(&key).unwrap();
        if key.0 > self.now {
            self.now = key.0;
        }
        match e {
            Ev::Xmit(fi) => self.transmit(fi),
            Ev::Chunk { node, frame, upto, last } => self.on_chunk(node, frame, upto, last),
            Ev::Retry { node, logical } => self.on_retry(node, logical),
        }
    }

    fn on_chunk(&mut self, ni: usize, fi: usize, upto: usize, last: bool) {
        {
            let node = &mut self.nodes[ni];
            match node.rx.back_mut() {
                Some(x) if x.frame == fi && !x.complete => {
                    x.got = upto;
                    x.complete = last;
                }
                _ => node.rx.push_back(Xfer { frame: fi, got: upto, complete: last, discard: false, first_probe: None }),
            }
        }
        self.ev("arrive", &[ni as u64, fi as u64, upto as u64, last as u64], &[]);
        let ap = self.nodes[ni].cfg.autopoll;
        let go = if self.draining {
            true
        } else {
            match ap {
                0 => true,
                1 => self.ch.choose(2) == 1,
                _ => false,
            }
        };
        if go {
            self.poll(ni);
        }
    }

    // ---------------------------------------------------------------- RX driver (stub)

    /// concatenation of everything that has arrived and not been consumed
    fn stream(&self, ni: usize) -> Vec<u8> {
        let mut s = Vec::new();
        for x in self.nodes[ni].rx.iter() {
            if x.discard {
                continue;
            }
            s.extend_from_slice(&self.frames[x.frame].bytes[..x.got]);
        }
        s
    }

    /// get_length through the real library, with the C10 / C17 / C04 oracles
    /// copy `b` into node `ni`'s persistent RX buffer; returns the offset it was placed at
    pub fn stage(&mut self, ni: usize, b: &[u8], rotate: bool) -> (usize, usize) {
        let node = &mut self.nodes[ni];
        let off = if rotate && node.cfg.rx_mode == 1 {
            node.rx_count = node.rx_count.wrapping_add(1);
            ((node.rx_count % 3) * 8) as usize
        } else {
            0
        };
        let n = b.len().min(node.rxbuf.len() - off);
        node.rxbuf[off..off + n].copy_from_slice(&b[..n]);
        (off, off + n)
    }

    /// C02: the twin (which never saw a bad-PEC packet) must produce the same output
    pub fn twin_compare(&mut self, ni: usize, what: &'static str, real_out: String, twin_out: String, input: &[u8]) {
        self.eval(Prop::C02, "C02/later-output-equals-twin-without-bad-pec-inputs");
        let panicked = |s: &str| s.contains("PANIC") || s.contains("Panic(");
        if real_out != twin_out && !panicked(&real_out) && !panicked(&twin_out) {
            self.viol(
                Prop::C02,
                format!("C02/effect/later-output/{}", what),
                format!(
                    "node{}: {} gives {} but a context with the same history minus the bad-PEC deliveries gives {} ; input {}",
                    ni,
                    what,
                    real_out,
                    twin_out,
                    hex(&input[..input.len().min(64)])
                ),
            );
        }
    }

    /// get_length on a staged copy, no oracles
    pub fn get_length_staged(&mut self, ni: usize, b: &[u8]) -> Len {
        let (off, end) = self.stage(ni, b, false);
        self.st.lib_calls += 1;
        {
            let node = &mut self.nodes[ni];
            node.twin_rx[off..end].copy_from_slice(&b[..end - off]);
            let _ = real::get_length(&node.twin, &node.twin_rx[off..end]);
        }
        real::get_length(&self.nodes[ni].ctx, &self.nodes[ni].rxbuf[off..end])
    }

    pub fn probe(&mut self, ni: usize, prefix: &[u8], head: Option<usize>) -> Len {
        // (a FIFO holding more than the RX buffer is probed on what fits: 2 KiB)
        let prefix = &prefix[..prefix.len().min(2000)];
        let (off, end) = self.stage(ni, prefix, false);
        let r = real::get_length(&self.nodes[ni].ctx, &self.nodes[ni].rxbuf[off..end]);
        {
            let node = &mut self.nodes[ni];
            node.twin_rx[off..end].copy_from_slice(&prefix[..end - off]);
            let rt = real::get_length(&node.twin, &node.twin_rx[off..end]);
            self.twin_compare(ni, "get_length", format!("{:?}", r), format!("{:?}", rt), prefix);
        }
        self.st.lib_calls += 1;
        self.probe_oracles(ni, prefix, r, head);
        if self.cfg.snoop {
            for nj in 0..self.nodes.len() {
                if nj == ni {
                    continue;
                }
                let (offj, endj) = self.stage(nj, prefix, false);
                let rj = real::get_length(&self.nodes[nj].ctx, &self.nodes[nj].rxbuf[offj..endj]);
                self.st.lib_calls += 1;
                {
                    let node = &mut self.nodes[nj];
                    node.twin_rx[offj..endj].copy_from_slice(&prefix[..endj - offj]);
                    let _ = real::get_length(&node.twin, &node.twin_rx[offj..endj]);
                }
                if prefix.len() < 3 {
                    continue; // shorter inputs only have to be rejected
                }
                self.eval(Prop::C17, "C17/context-independence");
                if rj != r {
                    self.viol(
                        Prop::C17,
                        "C17/context-dependence".into(),
                        format!("get_length({}) = {:?} on node{} but {:?} on node{}", hex(prefix), r, ni, rj, nj),
                    );
                }
            }
        }
        r
    }

    pub fn poll(&mut self, ni: usize) {
        let mut guard = 0;
        loop {
            guard += 1;
            if self.halt || guard > 64 {
                break;
            }
            // drop discarded, completed transfers
            while matches!(self.nodes[ni].rx.front(), Some(x) if x.discard && x.complete) {
                self.nodes[ni].rx.pop_front();
            }
            let head = match self.nodes[ni].rx.front() {
                Some(x) => x.clone(),
                None => break,
            };
            if head.discard {
                break;
            }
            if self.nodes[ni].cfg.framing == 0 {
                // STOP-delimited: whole transfers are handed to the library
                let fi = head.frame;
                if head.complete {
                    let bytes = self.frames[fi].bytes[..head.got].to_vec();
                    if bytes.len() < 3 {
                        self.st.probe("prefix-lt-3");
                    }
                    // the driver still asks for the length first, as the documentation suggests
                    let r = self.probe(ni, &bytes, Some(fi));
                    self.stability(ni, Some(0), r, &bytes);
                    self.nodes[ni].rx.pop_front();
                    self.handle(ni, bytes, Some(fi));
                    continue;
                } else {
                    let prefix = self.frames[fi].bytes[..head.got].to_vec();
                    if prefix.len() < 3 {
                        self.st.probe("prefix-lt-3");
                    }
                    let r = self.probe(ni, &prefix, Some(fi));
                    self.stability(ni, Some(0), r, &prefix);
                    break;
                }
            }
            // length-delimited: cut the FIFO stream with get_length
            let stream = self.stream(ni);
            if stream.is_empty() {
                if head.complete {
                    self.nodes[ni].rx.pop_front();
                    continue;
                }
                break;
            }
            if stream.len() < 3 {
                self.st.probe("prefix-lt-3");
            }
            if self.nodes[ni].rx.len() >= 2 {
                self.st.probe("coalesced-frames-in-fifo");
            }
            let head_whole = head.complete;
            let r = self.probe(ni, &stream, Some(head.frame));
            self.stability(ni, Some(0), r, &stream);
            let last_incomplete = matches!(self.nodes[ni].rx.back(), Some(x) if !x.complete);
            match r {
                Len::Ok(len) if len <= stream.len() => {
                    let exact = head_whole && head.got == len;
                    // C04: an unaltered encoder frame at the head of the stream is cut at its own boundary
                    let f = &self.frames[head.frame];
                    if f.intact() && matches!(f.origin, Origin::Encoder | Origin::Patched) && head_whole {
                        self.eval(Prop::C04, "C04/stream-resplit");
                        if !exact {
                            let msg = format!(
                                "driver cut {} bytes from the FIFO but the frame at its head is {} bytes: {}",
                                len,
                                head.got,
                                hex(&self.frames[head.frame].bytes)
                            );
                            self.viol(Prop::C04, "C04/framing/resplit".into(), msg);
                        }
                    }
                    let bytes = stream[..len].to_vec();
                    self.consume(ni, len);
                    self.handle(ni, bytes, if exact { Some(head.frame) } else { None });
                }
                Len::Ok(_) => {
                    if last_incomplete {
                        break; // wait for more bytes
                    }
                    // STOP seen before the announced length: hand over the short transfer as it is
                    self.nodes[ni].rx.pop_front();
                    let bytes = self.frames[head.frame].bytes[..head.got].to_vec();
                    self.st.probe("short-transfer-flushed");
                    self.handle(ni, bytes, Some(head.frame));
                }
                Len::Err { .. } | Len::Panic(_) => {
                    if !head_whole {
                        break;
                    }
                    // not MCTP: most drivers drop the transfer; some hand it to the decoder anyway
                    self.nodes[ni].rx.pop_front();
                    let give = self.draining || self.ch.choose(2) == 1;
                    if give {
                        let bytes = self.frames[head.frame].bytes[..head.got].to_vec();
                        self.handle(ni, bytes, Some(head.frame));
                    } else {
                        self.st.probe("non-mctp-transfer-dropped");
                    }
                }
            }
        }
    }

    /// consume `len` bytes of the stream, then resynchronise at the next STOP
    fn consume(&mut self, ni: usize, len: usize) {
        let mut left = len;
        loop {
            let (got, complete, discard) = match self.nodes[ni].rx.front() {
                Some(x) => (x.got, x.complete, x.discard),
                None => break,
            };
            if discard {
                if complete {
                    self.nodes[ni].rx.pop_front();
                    continue;
                }
                break;
            }
            if left == 0 {
                break;
            }
            if got <= left && complete {
                left -= got;
                self.nodes[ni].rx.pop_front();
                if left == 0 {
                    break;
                }
            } else {
                // the cut ends inside this transfer: the rest of it is dropped (resync at STOP)
                self.st.probe("resync-at-stop");
                if complete {
                    self.nodes[ni].rx.pop_front();
                } else if let Some(x) = self.nodes[ni].rx.front_mut() {
                    x.discard = true;
                }
                break;
            }
        }
    }

    /// C17: the answer for a transfer never changes as more of it arrives
    fn stability(&mut self, ni: usize, head_idx: Option<usize>, r: Len, prefix: &[u8]) {
        if prefix.len() < 3 {
            return;
        }
        if let Some(i) = head_idx {
            let prev = self.nodes[ni].rx.get(i).and_then(|x| x.first_probe);
            match prev {
                None => {
                    if let Some(x) = self.nodes[ni].rx.get_mut(i) {
                        x.first_probe = Some(r);
                    }
                }
                Some(p) => {
                    self.eval(Prop::C17, "C17/stable-during-arrival");
                    self.st.probe("probe-repeated-on-longer-prefix");
                    if p != r {
                        self.viol(
                            Prop::C17,
                            "C17/unstable".into(),
                            format!("get_length changed from {:?} to {:?} as more bytes arrived; now {}", p, r, hex(prefix)),
                        );
                    }
                }
            }
        }
    }

    // ---------------------------------------------------------------- state invariants

    /// C13: accessors of both halves equal the reference model
    pub fn check_state(&mut self, ni: usize, cause: &'static str) {
        let (rq, rs) = {
            let n = &self.nodes[ni];
            (n.ctx.get_request().get_eid(), n.ctx.get_response().get_eid())
        };
        self.eval(Prop::C13, "C13/state-after-event");
        let (mq, ms) = (self.nodes[ni].m_eid_req, self.nodes[ni].m_eid_resp);
        if let Some(m) = mq {
            if m != rq {
                self.viol(
                    Prop::C13,
                    format!("C13/eid/request-half/{}", cause),
                    format!("node{}: get_request().get_eid() = {:#04x}, reference model says {:#04x} ({})", ni, rq, m, cause),
                );
            }
        }
        if let Some(m) = ms {
            if m != rs {
                self.viol(
                    Prop::C13,
                    format!("C13/eid/response-half/{}", cause),
                    format!("node{}: get_response().get_eid() = {:#04x}, reference model says {:#04x} ({})", ni, rs, m, cause),
                );
            }
        }
    }
}
