//! Per-property profiles: workload weights, fault kinds allowed, domain knobs.
//! All oracles are always evaluated; the profile decides where the search spends
//! its runs, and `prop` decides which oracle family reports.

use crate::stats::*;

pub const OP_REQ: usize = 0;
pub const OP_VENDOR: usize = 1;
pub const OP_SPDM: usize = 2;
pub const OP_MANUAL: usize = 3;
pub const OP_UUID: usize = 4;
pub const OP_EIDACC: usize = 5;
pub const OP_DECODEONLY: usize = 6;
pub const OP_WALK: usize = 7;
pub const OP_INVALID: usize = 8;
pub const OP_RESTART: usize = 9;
pub const OP_FORGE: usize = 10;
pub const OP_NONMCTP: usize = 11;
pub const OP_GARBAGE: usize = 12;
pub const N_OPS: usize = 13;

pub const OP_NAMES: [&str; N_OPS] = [
    "A1_control_request",
    "A2_vendor_message",
    "A3_spdm_or_secured_message",
    "A4_manual_response",
    "A5_set_uuid",
    "A6_eid_accessor_write",
    "A7_decode_only",
    "A8_vendor_walk",
    "A10_invalid_arguments",
    "A11_restart",
    "W10b_forged_frame",
    "W10a_non_mctp_frame",
    "W6_garbage_transfer",
];

#[derive(Clone)]
pub struct Profile {
    pub prop: Prop,
    pub ops: [u32; N_OPS],
    /// weights over the 17 request encoders
    pub req_kinds: [u32; 17],
    /// per fault kind: highest rate level the swarm may draw (0 = kind never enabled)
    pub fault_max: [u8; NF],
    /// weight of fault-free runs vs faulty runs
    pub fault_free_w: u32,
    pub faulty_w: u32,
    /// may the workload deliberately produce inputs of the known C10 panic classes?
    pub allow_panic_inputs: bool,
    /// per-mille chance that a request gets a forged instance ID (A9)
    pub forge_iid_pm: u32,
    /// weight of near-limit body sizes in A2/A3 (0..10)
    pub big_bodies: u32,
    /// per-cent of runs in which every node snoops every frame
    pub snoop_pc: u32,
    /// per-cent of forged frames that start from a fully valid frame
    pub forge_valid_pc: u32,
    /// thorough tier: longer histories (more soak runs, larger step budgets)
    pub deep: bool,
}

const ANSWERABLE: [u32; 17] = [6, 4, 4, 3, 4, 5, 0, 0, 0, 0, 0, 0, 0, 0, 0, 0, 0];
const ALL_REQS: [u32; 17] = [5, 3, 3, 3, 3, 4, 2, 2, 3, 2, 1, 1, 1, 1, 2, 2, 1];

fn base(prop: Prop) -> Profile {
    Profile {
        prop,
        ops: [30, 6, 6, 8, 3, 3, 4, 4, 2, 1, 6, 2, 2],
        req_kinds: ALL_REQS,
        fault_max: [2, 2, 2, 2, 2, 2, 2, 2, 1, 0, 0, 3, 3, 0, 0, 0, 1, 1],
        fault_free_w: 1,
        faulty_w: 3,
        allow_panic_inputs: false,
        forge_iid_pm: 200,
        big_bodies: 2,
        snoop_pc: 50,
        forge_valid_pc: 50,
        deep: false,
    }
}

pub fn profile_for(prop: Prop) -> Profile {
    let mut p = base(prop);
    match prop {
        Prop::C01 => {
            // fault-free control configuration: only faults that do not alter bytes
            p.ops = [30, 12, 12, 14, 3, 3, 2, 2, 0, 2, 0, 0, 0];
            p.fault_max = [1, 2, 2, 0, 0, 0, 0, 0, 0, 0, 0, 3, 3, 0, 0, 0, 0, 0];
            p.fault_free_w = 1;
            p.faulty_w = 1;
            p.big_bodies = 4;
            p.snoop_pc = 70;
            p.forge_iid_pm = 0;
        }
        Prop::C02 => {
            p.ops = [34, 6, 6, 8, 3, 2, 3, 3, 0, 1, 3, 0, 2];
            p.req_kinds = [10, 4, 4, 3, 4, 5, 1, 1, 1, 1, 0, 0, 0, 0, 1, 1, 0];
            p.fault_max = [1, 2, 2, 3, 3, 3, 2, 3, 1, 0, 0, 2, 2, 0, 0, 0, 0, 1];
            p.fault_free_w = 1;
            p.faulty_w = 6;
            p.snoop_pc = 40;
        }
        Prop::C04 => {
            p.ops = [24, 14, 14, 10, 1, 1, 0, 2, 0, 1, 8, 2, 0];
            p.forge_valid_pc = 60;
            p.fault_max = [0, 2, 2, 0, 0, 0, 0, 0, 0, 0, 0, 3, 3, 0, 0, 0, 0, 1];
            p.big_bodies = 6;
            p.fault_free_w = 1;
            p.faulty_w = 2;
            p.snoop_pc = 30;
            p.forge_iid_pm = 50;
        }
        Prop::C07 => {
            p.ops = [20, 1, 1, 40, 4, 8, 1, 2, 0, 3, 10, 0, 0];
            p.req_kinds = [12, 6, 3, 2, 3, 3, 0, 0, 0, 0, 0, 0, 0, 0, 0, 0, 0];
            p.forge_valid_pc = 60;
            p.fault_max = [1, 1, 1, 1, 1, 0, 0, 0, 0, 0, 0, 2, 2, 0, 0, 0, 0, 1];
            p.snoop_pc = 10;
        }
        Prop::C09 => {
            p.ops = [20, 6, 6, 10, 2, 2, 3, 1, 0, 1, 40, 3, 6];
            p.fault_max = [1, 1, 1, 3, 3, 3, 3, 3, 1, 0, 0, 2, 2, 0, 0, 0, 0, 2];
            p.fault_free_w = 1;
            p.faulty_w = 4;
            p.snoop_pc = 90;
            p.allow_panic_inputs = true;
            p.forge_valid_pc = 30;
        }
        Prop::C10 => {
            p.ops = [18, 5, 5, 8, 2, 2, 3, 2, 0, 2, 40, 4, 14];
            p.fault_max = [1, 2, 2, 3, 3, 3, 3, 3, 2, 0, 0, 3, 3, 0, 0, 0, 2, 2];
            p.fault_free_w = 1;
            p.faulty_w = 6;
            p.allow_panic_inputs = true;
            p.big_bodies = 6;
            p.snoop_pc = 40;
            p.forge_valid_pc = 40;
        }
        Prop::C11 => {
            p.ops = [24, 8, 10, 14, 2, 2, 2, 2, 0, 1, 16, 2, 4];
            p.fault_max = [1, 2, 2, 2, 2, 2, 2, 2, 1, 0, 0, 2, 2, 0, 0, 0, 0, 1];
            p.snoop_pc = 10;
            p.forge_valid_pc = 70;
        }
        Prop::C12 => {
            p.ops = [60, 1, 1, 2, 2, 3, 1, 6, 0, 2, 10, 0, 0];
            p.forge_valid_pc = 85;
            p.req_kinds = ANSWERABLE;
            p.fault_max = [2, 2, 3, 1, 1, 0, 0, 0, 0, 0, 0, 2, 2, 0, 0, 0, 0, 1];
            p.forge_iid_pm = 800;
            p.fault_free_w = 1;
            p.faulty_w = 3;
            p.snoop_pc = 5;
        }
        Prop::C13 => {
            p.ops = [46, 3, 3, 5, 1, 8, 8, 2, 0, 4, 8, 0, 2];
            p.req_kinds = [24, 8, 2, 2, 2, 2, 1, 1, 1, 0, 0, 0, 0, 0, 0, 0, 0];
            p.fault_max = [2, 3, 3, 3, 3, 2, 1, 2, 1, 0, 0, 2, 2, 0, 0, 0, 0, 1];
            p.fault_free_w = 1;
            p.faulty_w = 4;
            p.snoop_pc = 40;
            p.forge_valid_pc = 90;
        }
        Prop::C14 => {
            p.ops = [20, 1, 1, 1, 1, 1, 1, 40, 0, 1, 0, 0, 0];
            p.req_kinds = [2, 1, 1, 1, 1, 30, 0, 0, 0, 0, 0, 0, 0, 0, 0, 0, 0];
            p.fault_max = [2, 3, 3, 0, 3, 0, 0, 0, 0, 0, 0, 2, 2, 0, 0, 0, 0, 0];
            p.forge_iid_pm = 300;
            p.fault_free_w = 1;
            p.faulty_w = 3;
            p.snoop_pc = 5;
        }
        Prop::C15 => {
            p.ops = [50, 3, 3, 3, 12, 3, 3, 3, 0, 4, 4, 0, 1];
            p.req_kinds = [4, 2, 14, 10, 14, 3, 0, 0, 1, 0, 0, 0, 0, 0, 0, 0, 0];
            p.fault_max = [2, 2, 2, 2, 2, 2, 1, 1, 1, 0, 0, 2, 2, 0, 0, 0, 0, 1];
            p.snoop_pc = 20;
            p.forge_valid_pc = 90;
        }
        Prop::C16 => {
            p.ops = [30, 12, 12, 16, 2, 2, 0, 2, 14, 1, 0, 0, 0];
            p.fault_max = [1, 1, 1, 0, 0, 0, 0, 0, 0, 0, 0, 1, 1, 0, 0, 0, 0, 0];
            p.big_bodies = 5;
            p.snoop_pc = 0;
            p.fault_free_w = 2;
            p.faulty_w = 1;
        }
        Prop::C17 => {
            p.ops = [24, 8, 8, 8, 1, 1, 1, 2, 0, 1, 10, 12, 14];
            p.fault_max = [1, 2, 2, 3, 2, 3, 3, 3, 1, 0, 0, 3, 3, 0, 0, 0, 0, 1];
            p.big_bodies = 3;
            p.snoop_pc = 60;
            p.allow_panic_inputs = false;
        }
    }
    p
}
