//! Panic trap around calls into libmctp.  A panic inside the library is an
//! *event* of the simulation (the firmware crashed), never a crash of the harness.
//! A panic outside a trap is a harness bug: it is printed and ends the process with
//! exit code 2 (see main).

use std::cell::{Cell, RefCell};
use std::panic::{self, AssertUnwindSafe};

#[derive(Clone, Copy, PartialEq, Eq, Debug, PartialOrd, Ord)]
pub enum PanicKind {
    Index,
    Unimplemented,
    Unreachable,
    Overflow,
    Unwrap,
    Other,
}

impl PanicKind {
    pub fn name(self) -> &'static str {
        match self {
            PanicKind::Index => "index",
            PanicKind::Unimplemented => "unimplemented",
            PanicKind::Unreachable => "unreachable",
            PanicKind::Overflow => "overflow",
            PanicKind::Unwrap => "unwrap",
            PanicKind::Other => "other",
        }
    }
}

thread_local! {
    static IN_TRAP: Cell<bool> = const { Cell::new(false) };
    static LAST: RefCell<Option<String>> = const { RefCell::new(None) };
}

pub fn install_hook() {
    panic::set_hook(Box::new(|info| {
        let msg = if let Some(s) = info.payload().downcast_ref::<&str>() {
            s.to_string()
        } else if let Some(s) = info.payload().downcast_ref::<String>() {
            s.clone()
        } else {
            "<non-string panic>".to_string()
        };
        if IN_TRAP.with(|c| c.get()) {
            LAST.with(|l| *l.borrow_mut() = Some(msg));
        } else {
            let loc = info
                .location()
                .map(|l| format!("{}:{}", l.file(), l.line()))
                .unwrap_or_default();
            eprintln!("HARNESS PANIC at {}: {}", loc, msg);
        }
    }));
}

pub fn classify(msg: &str) -> PanicKind {
    // message prefixes are stable across line shifts
    if msg.starts_with("not implemented") {
        PanicKind::Unimplemented
    } else if msg.starts_with("internal error: entered unreachable code") {
        PanicKind::Unreachable
    } else if msg.starts_with("attempt to ") {
        PanicKind::Overflow
    } else if msg.starts_with("index out of bounds")
        || msg.starts_with("range ")
        || msg.starts_with("slice index")
        || msg.contains("out of range for slice")
        || msg.starts_with("source slice length")
        || msg.starts_with("copy_from_slice")
        || msg.starts_with("mid > len")
    {
        PanicKind::Index
    } else if msg.starts_with("called `Option::unwrap()`") || msg.starts_with("called `Result::unwrap()`") {
        PanicKind::Unwrap
    } else {
        PanicKind::Other
    }
}

/// Run `f`; a panic is caught and classified.
pub fn trap<R>(f: impl FnOnce() -> R) -> Result<R, (PanicKind, String)> {
    IN_TRAP.with(|c| c.set(true));
    let r = panic::catch_unwind(AssertUnwindSafe(f));
    IN_TRAP.with(|c| c.set(false));
    match r {
        Ok(v) => Ok(v),
        Err(_) => {
            let msg = LAST.with(|l| l.borrow_mut().take()).unwrap_or_default();
            Err((classify(&msg), msg))
        }
    }
}
