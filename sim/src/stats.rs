//! Counters a batch accumulates (per worker, merged at the end) and the property enum.

use std::collections::{BTreeMap, HashSet};

#[derive(Clone, Copy, PartialEq, Eq, Debug, PartialOrd, Ord)]
pub enum Prop {
    C01,
    C02,
    C04,
    C07,
    C09,
    C10,
    C11,
    C12,
    C13,
    C14,
    C15,
    C16,
    C17,
}

pub const ALL_PROPS: [Prop; 13] = [
    Prop::C01,
    Prop::C02,
    Prop::C04,
    Prop::C07,
    Prop::C09,
    Prop::C10,
    Prop::C11,
    Prop::C12,
    Prop::C13,
    Prop::C14,
    Prop::C15,
    Prop::C16,
    Prop::C17,
];

impl Prop {
    pub fn id(self) -> &'static str {
        match self {
            Prop::C01 => "C01",
            Prop::C02 => "C02",
            Prop::C04 => "C04",
            Prop::C07 => "C07",
            Prop::C09 => "C09",
            Prop::C10 => "C10",
            Prop::C11 => "C11",
            Prop::C12 => "C12",
            Prop::C13 => "C13",
            Prop::C14 => "C14",
            Prop::C15 => "C15",
            Prop::C16 => "C16",
            Prop::C17 => "C17",
        }
    }
    pub fn parse(s: &str) -> Option<Prop> {
        ALL_PROPS.iter().copied().find(|p| p.id() == s)
    }
}

/// fault kinds (W1..W11, N1, B1 of DESIGN.md section 3.3)
pub const F_DROP: usize = 0;
pub const F_DUP: usize = 1;
pub const F_DELAY: usize = 2;
pub const F_FLIP: usize = 3;
pub const F_BURST: usize = 4;
pub const F_GARBLE: usize = 5;
pub const F_TRUNC: usize = 6;
pub const F_EXTEND: usize = 7;
pub const F_MISROUTE: usize = 8;
pub const F_FOREIGN_NONMCTP: usize = 9;
pub const F_FOREIGN_FORGED: usize = 10;
pub const F_CHUNKED: usize = 11;
pub const F_LATE_POLL: usize = 12;
pub const F_RESTART: usize = 13;
pub const F_DIRTY_BUF: usize = 14;
pub const F_GARBAGE: usize = 15;
pub const F_PANIC_RESTART: usize = 16;
pub const F_BRIDGE: usize = 17;
pub const NF: usize = 18;

pub const FAULT_NAMES: [&str; NF] = [
    "W1_drop",
    "W2_duplicate",
    "W3_delay_reorder",
    "W4_bit_flips",
    "W5_burst_le8",
    "W6_garble",
    "W7_truncate",
    "W8_extend",
    "W9_misroute",
    "W10a_foreign_non_mctp",
    "W10b_foreign_forged_valid_pec",
    "W11_chunked_arrival",
    "W11_late_poll_coalesced",
    "N1_restart",
    "B1_dirty_buffer_reuse",
    "W6_garbage_transfer",
    "N1_restart_after_panic",
    "W12_bridge_rewrites_smbus_source",
];

#[derive(Default)]
pub struct Stats {
    pub runs: u64,
    pub runs_fault_free: u64,
    pub runs_faulty: u64,
    pub runs_nontrivial: u64,
    pub events: u64,
    pub sim_time_us: u64,
    pub lib_calls: u64,
    pub panics_trapped: u64,
    pub faults: [u64; NF],
    pub probes: BTreeMap<&'static str, u64>,
    pub evals: BTreeMap<&'static str, u64>,
    pub other_prop_alarms: BTreeMap<&'static str, u64>,
    pub known_hits: BTreeMap<String, u64>,
    pub digests_nontrivial: HashSet<u64>,
    pub states: HashSet<u64>,
    pub triples: HashSet<(u8, u8, u8)>,
    /// order-independent combination of (run index, run digest)
    pub batch_digest: u64,
    pub choices: u64,
}

impl Stats {
    #[inline]
    pub fn probe(&mut self, name: &'static str) {
        *self.probes.entry(name).or_insert(0) += 1;
    }
    #[inline]
    pub fn eval(&mut self, name: &'static str) {
        *self.evals.entry(name).or_insert(0) += 1;
    }
    pub fn merge(&mut self, o: Stats) {
        self.runs += o.runs;
        self.runs_fault_free += o.runs_fault_free;
        self.runs_faulty += o.runs_faulty;
        self.runs_nontrivial += o.runs_nontrivial;
        self.events += o.events;
        self.sim_time_us += o.sim_time_us;
        self.lib_calls += o.lib_calls;
        self.panics_trapped += o.panics_trapped;
        self.choices += o.choices;
        for i in 0..NF {
            self.faults[i] += o.faults[i];
        }
        for (k, v) in o.probes {
            *self.probes.entry(k).or_insert(0) += v;
        }
        for (k, v) in o.evals {
            *self.evals.entry(k).or_insert(0) += v;
        }
        for (k, v) in o.other_prop_alarms {
            *self.other_prop_alarms.entry(k).or_insert(0) += v;
        }
        for (k, v) in o.known_hits {
            *self.known_hits.entry(k).or_insert(0) += v;
        }
        self.digests_nontrivial.extend(o.digests_nontrivial);
        self.states.extend(o.states);
        self.triples.extend(o.triples);
        self.batch_digest = self.batch_digest.wrapping_add(o.batch_digest);
    }
}
