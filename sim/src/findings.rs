//! Known findings (read-only at run time) and the input-class predicates used in
//! violation signatures.  Classes are predicates on the *delivered bytes* (and, for
//! the vendor selector, the responder's configuration) — never "whatever panicked".

use std::collections::BTreeMap;

use crate::refmodel::{fixed_req_len, parse, T_CONTROL, T_IANA};

#[derive(Default, Clone)]
pub struct Known {
    /// signature -> (property, what)
    pub open: BTreeMap<String, (String, String)>,
    pub fixed: Vec<String>,
}

impl Known {
    pub fn load(path: &str) -> Result<Known, String> {
        let text = match std::fs::read_to_string(path) {
            Ok(t) => t,
            Err(e) => return Err(format!("cannot read {}: {}", path, e)),
        };
        let mut k = Known::default();
        for (ln, line) in text.lines().enumerate() {
            let line = line.trim();
            if line.is_empty() || line.starts_with('#') {
                continue;
            }
            if let Some(rest) = line.strip_prefix("finding:") {
                let prop = field(rest, "property=").ok_or(format!("line {}: no property=", ln + 1))?;
                let sig = field(rest, "sig=").ok_or(format!("line {}: no sig=", ln + 1))?;
                let what = quoted(rest, "what=").unwrap_or_default();
                k.open.insert(sig, (prop, what));
            } else if let Some(rest) = line.strip_prefix("fixed:") {
                k.fixed.push(rest.trim().to_string());
            } else {
                return Err(format!("line {}: expected 'finding:' or 'fixed:'", ln + 1));
            }
        }
        Ok(k)
    }
    pub fn is_open(&self, sig: &str) -> bool {
        self.open.contains_key(sig)
    }
    /// is any open finding listed whose signature mentions this C10 input class?
    pub fn class_open(&self, api: &str, class: &str) -> bool {
        let needle = format!("C10/panic/{}/{}/", api, class);
        self.open.keys().any(|s| s.starts_with(&needle))
    }
}

fn field(s: &str, key: &str) -> Option<String> {
    let i = s.find(key)? + key.len();
    let rest = &s[i..];
    let end = rest.find(char::is_whitespace).unwrap_or(rest.len());
    Some(rest[..end].to_string())
}

fn quoted(s: &str, key: &str) -> Option<String> {
    let i = s.find(key)? + key.len();
    let rest = &s[i..];
    let rest = rest.strip_prefix('"')?;
    let end = rest.find('"')?;
    Some(rest[..end].to_string())
}

/// Input class of a `get_length` argument.
pub fn probe_class(b: &[u8]) -> &'static str {
    if b.len() < 3 {
        "probe-short"
    } else {
        "none"
    }
}

/// Input class of a `decode_packet` argument (see DESIGN.md Appendix B).
pub fn decode_class(b: &[u8]) -> &'static str {
    let n = b.len();
    if n < 10 {
        return "short";
    }
    let p = parse(b);
    if !p.hdr_ok || p.ic || !p.type_ok {
        return "none";
    }
    if p.mtype == T_IANA && n < 11 {
        return "short";
    }
    if p.mtype != T_CONTROL {
        return "none";
    }
    if n < 12 || (!p.rq && n < 13) {
        return "short";
    }
    if p.rq {
        if p.cmd > 0x08 {
            return "req-cmd-unimpl";
        }
        "none"
    } else {
        if p.cc > 5 {
            return "resp-cc-unknown";
        }
        if p.cc == 0 && (p.cmd == 0x07 || p.cmd >= 0x0A) {
            return "resp-cmd-unimpl";
        }
        "none"
    }
}

/// Input class of a `process_packet` argument on a responder with `n_sets` vendor sets.
pub fn process_class(b: &[u8], n_sets: usize) -> &'static str {
    let d = decode_class(b);
    if d != "none" && d != "req-cmd-unimpl" {
        return d;
    }
    let c = accepted_class(b, n_sets);
    if c == "none" {
        d
    } else {
        c
    }
}

/// Class of an input the reference accepts as a control message, by what the request asks for.
fn accepted_class(b: &[u8], n_sets: usize) -> &'static str {
    let n = b.len();
    let p = parse(b);
    if !p.hdr_ok || p.ic || !p.type_ok || p.mtype != T_CONTROL || !p.pec_ok {
        return "none";
    }
    // accepted control messages only from here on
    if p.rq {
        let dl = n - 12;
        if matches!(fixed_req_len(p.cmd), Some(l) if l != dl) {
            return "none";
        }
    } else {
        // responses: the reference decoder's length rules (Set EID 3, UUID 16, Version 5);
        // rejected responses never reach the dispatch
        let dl = n - 13;
        if matches!(crate::refmodel::fixed_resp_len(p.cmd), Some(l) if l != dl) {
            return "none";
        }
    }
    if (256..=259).contains(&n) {
        return "len-256-259";
    }
    if !p.rq {
        return "none";
    }
    match p.cmd {
        0x00 => "req-cmd-reserved",
        0x01 => {
            let op = b[11];
            if op == 2 || op > 3 {
                "set-eid-op"
            } else {
                "none"
            }
        }
        0x06 => {
            let sel = b[11];
            if sel == 0xFF || sel as usize >= n_sets {
                "vendor-selector-range"
            } else {
                "none"
            }
        }
        0x07 | 0x08 => "req-cmd-unanswerable",
        c if c > 0x08 => "req-cmd-unanswerable",
        _ => "none",
    }
}
