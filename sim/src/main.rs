//! simbus — deterministic simulation of an SMBus segment with fault injection,
//! driving real libmctp contexts.  See /verif/DESIGN.md.
//!
//!   simbus check <C01..C17> <quick|thorough>     run a batch, write evidence, exit 0/1/2
//!   simbus replay <file>                         re-execute a replay file in this process
//!   simbus digest <prop> <runs> <seed> <workers> print the batch digest (determinism self-test)
//!   simbus trace <prop> <seed> <run>             print the full trace of one run

#![allow(dead_code)]

mod calls;
mod cfg;
mod findings;
mod handle;
mod json;
mod ops;
mod profile;
mod real;
mod refmodel;
mod rng;
mod sim;
mod stats;
mod trap;

use std::collections::BTreeMap;
use std::sync::atomic::{AtomicU64, Ordering};
use std::sync::{Arc, Mutex};
use std::time::Instant;

use findings::Known;
use json::J;
use profile::{profile_for, Profile};
use rng::Chooser;
use sim::{run_one, RunOut};
use stats::*;

fn verif_dir() -> String {
    std::env::var("VERIF_DIR").unwrap_or_else(|_| "/verif".to_string())
}

fn die(msg: &str) -> ! {
    eprintln!("simbus: harness error: {}", msg);
    std::process::exit(2);
}

fn main() {
    trap::install_hook();
    let args: Vec<String> = std::env::args().collect();
    let code = match std::panic::catch_unwind(|| real_main(&args)) {
        Ok(c) => c,
        Err(_) => {
            eprintln!("simbus: harness error: internal panic (see above)");
            2
        }
    };
    std::process::exit(code);
}

fn real_main(args: &[String]) -> i32 {
    if args.len() < 2 {
        eprintln!("usage: simbus check <prop> <tier> | replay <file> | digest <prop> <runs> <seed> <workers> | trace <prop> <seed> <run>");
        return 2;
    }
    match args[1].as_str() {
        "check" => {
            if args.len() < 4 {
                die("check needs <prop> <tier>");
            }
            let prop = Prop::parse(&args[2]).unwrap_or_else(|| die("unknown property (claimed: C01 C02 C04 C07 C09..C17)"));
            let tier = std::env::var("VERIF_TIER").ok().filter(|t| t == "quick" || t == "thorough").unwrap_or_else(|| args[3].clone());
            if tier != "quick" && tier != "thorough" {
                die("tier must be quick or thorough");
            }
            cmd_check(prop, &tier)
        }
        "replay" => {
            if args.len() < 3 {
                die("replay needs <file>");
            }
            cmd_replay(&args[2])
        }
        "digest" => {
            if args.len() < 6 {
                die("digest needs <prop> <runs> <seed> <workers>");
            }
            let prop = Prop::parse(&args[2]).unwrap_or_else(|| die("unknown property"));
            let runs: u64 = args[3].parse().unwrap_or_else(|_| die("bad runs"));
            let seed: u64 = args[4].parse().unwrap_or_else(|_| die("bad seed"));
            let workers: usize = args[5].parse().unwrap_or_else(|_| die("bad workers"));
            let known = load_known();
            let prof = profile_for(prop);
            let b = run_batch(&prof, &known, seed, runs, workers, u64::MAX);
            println!(
                "digest prop={} seed={} runs={} workers={} batch_digest={:016x} events={} violations={}",
                prop.id(),
                seed,
                runs,
                workers,
                b.stats.batch_digest,
                b.stats.events,
                b.first.is_some() as u8
            );
            0
        }
        "trace" => {
            if args.len() < 5 {
                die("trace needs <prop> <seed> <run>");
            }
            let prop = Prop::parse(&args[2]).unwrap_or_else(|| die("unknown property"));
            let seed: u64 = args[3].parse().unwrap_or_else(|_| die("bad seed"));
            let run: u64 = args[4].parse().unwrap_or_else(|_| die("bad run"));
            let known = load_known();
            let prof = profile_for(prop);
            let mut st = Stats::default();
            let out = run_one(&prof, Chooser::search(seed, run), &mut st, &known, true);
            for l in out.trace.unwrap_or_default() {
                println!("{}", l);
            }
            println!("digest={:016x} choices={} violation={:?}", out.digest, out.choices.len(), out.violation.map(|v| v.sig));
            0
        }
        _ => {
            eprintln!("unknown subcommand");
            2
        }
    }
}

fn load_known() -> Known {
    let p = format!("{}/known_findings.txt", verif_dir());
    match Known::load(&p) {
        Ok(k) => k,
        Err(e) => die(&e),
    }
}

struct Batch {
    stats: Stats,
    /// violation with the lowest run index
    first: Option<(u64, RunOut)>,
    runs_done: u64,
}

/// Execute runs 0..runs of a batch on `workers` threads.  The result is independent of
/// the worker count: every run is a pure function of (seed, index), the reported
/// violation is the one with the lowest index, statistics are order-independent sums.
fn run_batch(prof: &Profile, known: &Known, seed: u64, runs: u64, workers: usize, deadline_ms: u64) -> Batch {
    let best = Arc::new(AtomicU64::new(u64::MAX));
    let found: Arc<Mutex<Option<(u64, RunOut)>>> = Arc::new(Mutex::new(None));
    let t0 = Instant::now();
    let mut total = Stats::default();
    let mut done = 0u64;
    std::thread::scope(|s| {
        let mut hs = Vec::new();
        for w in 0..workers {
            let best = best.clone();
            let found = found.clone();
            let prof = prof.clone();
            let known = known.clone();
            hs.push(s.spawn(move || {
                trap::install_hook();
                let mut st = Stats::default();
                let mut i = w as u64;
                let mut n = 0u64;
                while i < runs && i < best.load(Ordering::Relaxed) {
                    if deadline_ms != u64::MAX && n % 512 == 0 && t0.elapsed().as_millis() as u64 > deadline_ms {
                        break;
                    }
                    let out = run_one(&prof, Chooser::search(seed, i), &mut st, &known, false);
                    st.runs += 1;
                    n += 1;
                    st.choices += out.choices.len() as u64;
                    let mut h = rng::Fnv::new();
                    h.u64(i);
                    h.u64(out.digest);
                    st.batch_digest = st.batch_digest.wrapping_add(h.0);
                    if out.nontrivial {
                        st.runs_nontrivial += 1;
                        st.digests_nontrivial.insert(out.digest);
                    }
                    if out.violation.is_some() {
                        let mut g = found.lock().unwrap();
                        let better = match &*g {
                            Some((j, _)) => i < *j,
                            None => true,
                        };
                        if better {
                            *g = Some((i, out));
                        }
                        best.fetch_min(i, Ordering::Relaxed);
                        break;
                    }
                    i += workers as u64;
                }
                (st, n)
            }));
        }
        for h in hs {
            match h.join() {
                Ok((st, n)) => {
                    total.merge(st);
                    done += n;
                }
                Err(_) => die("a worker thread panicked outside a trap (harness bug)"),
            }
        }
    });
    let first = found.lock().unwrap().take();
    Batch { stats: total, first, runs_done: done }
}

// ---------------------------------------------------------------- shrinking

fn same(out: &RunOut, sig: &str) -> bool {
    matches!(&out.violation, Some(v) if v.sig == sig)
}

fn attempt(prof: &Profile, known: &Known, blocks: &[Vec<u32>], sig: &str, budget: &mut u32) -> Option<RunOut> {
    if *budget == 0 {
        return None;
    }
    *budget -= 1;
    let mut st = Stats::default();
    let out = run_one(prof, Chooser::replay(blocks.to_vec()), &mut st, known, false);
    if same(&out, sig) {
        Some(out)
    } else {
        None
    }
}

fn blocks(out: &RunOut) -> Vec<Vec<u32>> {
    Chooser::blocks_of(&out.choices, &out.marks)
}

fn weight(b: &[Vec<u32>]) -> (usize, u64) {
    (b.iter().map(|x| x.len()).sum(), b.iter().flat_map(|x| x.iter()).map(|&v| v as u64).sum())
}

/// Minimise the choice sequence while the same violation signature persists:
/// delete runs of scheduler steps (halving chunk sizes down to single steps), zero single
/// choices (0 is always the benign alternative), halve what is left.  Blocks keep later
/// choices aligned.  The budget is a number of re-executions derived from the run's
/// size only, so minimisation is as repeatable as the run itself.
fn shrink(prof: &Profile, known: &Known, start: RunOut, sig: &str) -> (RunOut, u32) {
    let size = start.choices.len().max(1) as u64;
    let total: u32 = (60_000_000u64 / size).clamp(400, 12_000) as u32;
    let mut budget = total;
    let mut cur = start;
    match attempt(prof, known, &blocks(&cur), sig, &mut budget) {
        Some(o) => cur = o,
        None => return (cur, 0),
    }
    let mut improved = true;
    while improved && budget > 0 {
        improved = false;
        // (1) delete chunks of scheduler steps, large chunks first, from the end
        let cfg_blocks = cur.cfg_end as usize;
        let n_steps = blocks(&cur).len().saturating_sub(cfg_blocks);
        let mut chunk = (n_steps / 2).max(1);
        loop {
            let mut hi = blocks(&cur).len();
            while hi > cfg_blocks && budget > 0 {
                let lo = hi.saturating_sub(chunk).max(cfg_blocks);
                let mut cand = blocks(&cur);
                if hi > cand.len() {
                    hi = cand.len();
                    continue;
                }
                cand.drain(lo..hi);
                if let Some(o) = attempt(prof, known, &cand, sig, &mut budget) {
                    cur = o;
                    improved = true;
                    hi = lo.min(blocks(&cur).len());
                } else {
                    hi = lo;
                }
            }
            if chunk == 1 || budget == 0 {
                break;
            }
            chunk /= 2;
        }
        // (2) zero single choices, (3) halve
        for pass in 0..2 {
            let mut bi = 0;
            while bi < blocks(&cur).len() && budget > 0 {
                let mut k = 0;
                loop {
                    let bl = blocks(&cur);
                    if bi >= bl.len() || k >= bl[bi].len() || budget == 0 {
                        break;
                    }
                    let v = bl[bi][k];
                    let nv = if pass == 0 { 0 } else { v / 2 };
                    if v != nv {
                        let mut cand = bl.clone();
                        cand[bi][k] = nv;
                        if let Some(o) = attempt(prof, known, &cand, sig, &mut budget) {
                            if weight(&blocks(&o)) < weight(&bl) {
                                cur = o;
                                improved = true;
                            }
                        }
                    }
                    k += 1;
                }
                bi += 1;
            }
        }
    }
    (cur, total - budget)
}

// ---------------------------------------------------------------- check

fn tier_runs(prop: Prop, tier: &str) -> u64 {
    if let Ok(v) = std::env::var("VERIF_RUNS") {
        if let Ok(n) = v.parse::<u64>() {
            return n.max(1);
        }
    }
    let quick = match prop {
        Prop::C10 | Prop::C09 => 300_000,
        _ => 200_000,
    };
    if tier == "quick" {
        quick
    } else {
        quick * 40
    }
}

fn cmd_check(prop: Prop, tier: &str) -> i32 {
    let seed: u64 = std::env::var("VERIF_SEED").ok().and_then(|s| s.trim().parse().ok()).unwrap_or(1);
    let known = load_known();
    let mut prof = profile_for(prop);
    prof.deep = tier == "thorough";
    let runs = tier_runs(prop, tier);
    let workers: usize = std::env::var("VERIF_WORKERS").ok().and_then(|s| s.parse().ok()).unwrap_or_else(|| std::thread::available_parallelism().map(|n| n.get()).unwrap_or(4).min(16));
    let deadline_ms: u64 = if tier == "quick" { 240_000 } else { 900_000 };
    println!("VERIF_SEED={} property={} tier={} runs={} workers={}", seed, prop.id(), tier, runs, workers);
    let t0 = Instant::now();
    let batch = run_batch(&prof, &known, seed, runs, workers, deadline_ms);
    let wall = t0.elapsed().as_secs_f64();
    let stopped_early = batch.first.is_none() && batch.runs_done < runs;

    let dir = verif_dir();
    let mut violations = 0;
    let mut replay_path = String::new();
    let mut viol_json = J::Null;
    if let Some((idx, out)) = batch.first {
        violations = 1;
        let v = out.violation.clone().unwrap();
        let before = out.choices.len();
        let (min, used) = shrink(&prof, &known, out, &v.sig);
        // final replay with trace, in this process
        let mut st = Stats::default();
        let traced = run_one(&prof, Chooser::replay(blocks(&min)), &mut st, &known, true);
        let reproduced = same(&traced, &v.sig);
        let vm = traced.violation.clone().unwrap_or(v.clone());
        let _ = std::fs::create_dir_all(format!("{}/replays", dir));
        replay_path = format!("{}/replays/{}-s{}-r{}.json", dir, prop.id(), seed, idx);
        let mut j = J::obj();
        j.set("format", J::s("simbus-replay-1"));
        j.set("property", J::s(prop.id()));
        j.set("signature", J::s(&vm.sig));
        j.set("message", J::s(&vm.msg));
        j.set("seed", J::i(seed));
        j.set("run", J::i(idx));
        j.set("tier", J::s(tier));
        j.set("profile", J::s(prop.id()));
        j.set("choices_before_minimisation", J::i(before as u64));
        j.set("minimisation_reexecutions", J::i(used));
        j.set("reproduced_after_minimisation", J::Bool(reproduced));
        j.set("config_blocks", J::i(min.cfg_end));
        j.set(
            "blocks",
            J::Arr(blocks(&min).iter().map(|b| J::Arr(b.iter().map(|&c| J::i(c)).collect())).collect()),
        );
        j.set("trace", J::strs(traced.trace.clone().unwrap_or_default()));
        if let Err(e) = std::fs::write(&replay_path, j.dump()) {
            die(&format!("cannot write replay file {}: {}", replay_path, e));
        }
        println!("violation signature: {}", vm.sig);
        println!("  {}", vm.msg);
        println!("  found in run {} of seed {}; minimised {} -> {} choices in {} re-executions", idx, seed, before, min.choices.len(), used);
        let tr = traced.trace.unwrap_or_default();
        let from = tr.len().saturating_sub(14);
        for l in &tr[from..] {
            println!("  | {}", l);
        }
        viol_json = J::obj();
        viol_json.set("signature", J::s(&vm.sig));
        viol_json.set("message", J::s(&vm.msg));
        viol_json.set("replay", J::s(&replay_path));
    }

    // known findings hit by this batch
    let mut kf = Vec::new();
    for (sig, n) in batch.stats.known_hits.iter() {
        let what = known.open.get(sig).map(|x| x.1.clone()).unwrap_or_default();
        println!("KNOWN-FINDING: property={} {} \"{}\" (hit {} times)", prop.id(), sig, what, n);
        let mut o = J::obj();
        o.set("signature", J::s(sig));
        o.set("what", J::s(&what));
        o.set("hits", J::i(*n));
        kf.push(o);
    }

    // samples: re-run the first few non-trivial runs with tracing
    let mut samples = Vec::new();
    {
        let mut st = Stats::default();
        let mut i = 0u64;
        while samples.len() < 2 && i < 200.min(runs) {
            let o = run_one(&prof, Chooser::search(seed, i), &mut st, &known, true);
            if o.nontrivial && o.violation.is_none() {
                let tr = o.trace.unwrap_or_default();
                let mut s = J::obj();
                s.set("run", J::i(i));
                s.set("choices", J::i(o.choices.len() as u64));
                s.set("digest", J::s(&format!("{:016x}", o.digest)));
                let cut: Vec<String> = tr.iter().take(70).cloned().collect();
                s.set("trace_first_lines", J::strs(cut));
                s.set("trace_lines_total", J::i(tr.len() as u64));
                samples.push(s);
            }
            i += 1;
        }
        if samples.is_empty() {
            let mut s = J::obj();
            s.set("note", J::s("no non-trivial run among the first 200"));
            samples.push(s);
        }
    }

    let st = &batch.stats;
    let pfx = format!("{}/", prop.id());
    let own_evals: BTreeMap<String, u64> = st.evals.iter().filter(|(k, _)| k.starts_with(&pfx)).map(|(k, v)| (k.to_string(), *v)).collect();
    let all_evals: BTreeMap<String, u64> = st.evals.iter().map(|(k, v)| (k.to_string(), *v)).collect();
    let probes: BTreeMap<String, u64> = st.probes.iter().map(|(k, v)| (k.to_string(), *v)).collect();
    let faults: BTreeMap<String, u64> = (0..NF).map(|k| (FAULT_NAMES[k].to_string(), st.faults[k])).collect();
    let others: BTreeMap<String, u64> = st.other_prop_alarms.iter().map(|(k, v)| (k.to_string(), *v)).collect();

    let mut cov = J::obj();
    cov.set("evaluations", J::i(st.runs));
    cov.set("distinct_nontrivial", J::i(st.digests_nontrivial.len() as u64));
    cov.set(
        "rule",
        J::s(&format!(
            "one evaluation = one simulated run (seeded schedule + fault sequence + workload on 2-5 real MCTPSMBusContext nodes, <= {} scheduler steps (per-run budget 80/250/600, thorough 80/250/600/1200; one run in 256, thorough one in 64, is a 4000-step soak run), then a fault-free drain); run i of a batch is a pure function of (VERIF_SEED, i). A run is non-trivial when at least one {} oracle was evaluated on an in-domain event; distinct = distinct 64-bit FNV digests of the complete event log (frames, faults, deliveries, results) among non-trivial runs, counted with a hash set.",
            600,
            prop.id()
        )),
    );
    cov.set("samples", J::Arr(samples));
    cov.set("exhaustive", J::Bool(false));
    cov.set("runs_requested", J::i(runs));
    cov.set("stopped_by_wall_clock_safety_net", J::Bool(stopped_early));
    cov.set("nontrivial_runs", J::i(st.runs_nontrivial));
    cov.set("fault_free_runs", J::i(st.runs_fault_free));
    cov.set("faulty_runs", J::i(st.runs_faulty));
    cov.set("runs_per_hour", J::i(if wall > 0.0 { (st.runs as f64 / wall * 3600.0) as u64 } else { 0 }));
    cov.set("seeds_per_hour", J::s("one VERIF_SEED per batch; every run index is its own PRNG stream (see runs_per_hour)"));
    cov.set("simulated_time_us", J::i(st.sim_time_us));
    cov.set("events", J::i(st.events));
    cov.set("choices_drawn", J::i(st.choices));
    cov.set("library_calls", J::i(st.lib_calls));
    cov.set("panics_trapped", J::i(st.panics_trapped));
    cov.set("faults_fired", J::from_map(&faults));
    cov.set("oracle_evaluations", J::from_map(&own_evals));
    cov.set("all_oracle_evaluations", J::from_map(&all_evals));
    cov.set("probes", J::from_map(&probes));
    cov.set("distinct_abstract_node_states", J::i(st.states.len() as u64));
    cov.set("distinct_origin_type_fault_triples", J::i(st.triples.len() as u64));
    cov.set("batch_digest", J::s(&format!("{:016x}", st.batch_digest)));
    cov.set("alarms_of_other_properties_seen_not_reported", J::from_map(&others));
    cov.set("known_findings_hit", J::Arr(kf));
    let mut comp = J::obj();
    comp.set(
        "real",
        J::strs(
            [
                "libmctp MCTPSMBusContext, request/response halves, all encoders, get_length, decode_packet, process_packet (built from /repo working tree, overflow-checks on)",
                "smbus-pec, bitfield (dependencies of libmctp)",
            ]
            .iter()
            .map(|s| s.to_string()),
        ),
    );
    comp.set(
        "stub",
        J::strs(
            [
                "SMBus segment: arbitration, byte timing, address routing, slave FIFO, wire faults (simulator)",
                "node firmware around the library: RX framing loop, dispatch, response transmit, requester table, retry timer, vendor-set walker",
                "foreign implementation node forging frames from the reference encoder",
                "oracles: bitwise CRC-8, reference decoder, reference response layouts, EID/UUID model (independent reference code)",
            ]
            .iter()
            .map(|s| s.to_string()),
        ),
    );
    cov.set("components", comp);
    if violations > 0 {
        cov.set("violation", viol_json);
    }

    let mut ev = J::obj();
    ev.set("property_id", J::s(prop.id()));
    ev.set("tier", J::s(tier));
    ev.set("seed", J::i(seed));
    ev.set("level", J::s("exploration"));
    ev.set("coverage", cov);
    ev.set(
        "assumptions",
        J::strs(
            [
                "sampling, not enumeration: a clean batch is evidence, not proof",
                "the stub bus and drivers model SMBus behaviour (arbitration, STOP-delimited or length-delimited RX, retries); real drivers are outside the simulation",
                "oracles are derived from the property text and DSP0236/DSP0237 only",
                "rustc release profile with overflow-checks=true, panic=unwind",
            ]
            .iter()
            .map(|s| s.to_string()),
        ),
    );
    ev.set("wall_s", J::Num(wall));
    ev.set("violations", J::i(violations as u64));
    let _ = std::fs::create_dir_all(format!("{}/evidence", dir));
    let evp = format!("{}/evidence/{}.json", dir, prop.id());
    if let Err(e) = std::fs::write(&evp, ev.dump()) {
        die(&format!("cannot write evidence file {}: {}", evp, e));
    }
    println!(
        "{} {}: {} runs ({} non-trivial, {} distinct), {} events, {} library calls, {:.1}s, {:.0} runs/s",
        prop.id(),
        tier,
        st.runs,
        st.runs_nontrivial,
        st.digests_nontrivial.len(),
        st.events,
        st.lib_calls,
        wall,
        st.runs as f64 / wall.max(1e-9)
    );
    if violations > 0 {
        println!("VIOLATION property={} replay={}", prop.id(), replay_path);
        1
    } else {
        println!("OK property={} held on everything explored", prop.id());
        0
    }
}

// ---------------------------------------------------------------- replay

fn cmd_replay(path: &str) -> i32 {
    let text = match std::fs::read_to_string(path) {
        Ok(t) => t,
        Err(e) => die(&format!("cannot read {}: {}", path, e)),
    };
    let j = match J::parse(&text) {
        Ok(j) => j,
        Err(e) => die(&format!("bad replay file: {}", e)),
    };
    let prop = j.get("property").and_then(|p| p.as_str()).and_then(Prop::parse).unwrap_or_else(|| die("replay file has no property"));
    let sig = j.get("signature").and_then(|p| p.as_str()).unwrap_or_else(|| die("replay file has no signature")).to_string();
    let choices: Vec<Vec<u32>> = j
        .get("blocks")
        .and_then(|c| c.as_arr())
        .unwrap_or_else(|| die("replay file has no blocks"))
        .iter()
        .map(|b| b.as_arr().map(|a| a.iter().map(|v| v.as_i64().unwrap_or(0) as u32).collect()).unwrap_or_default())
        .collect();
    let known = load_known();
    let mut prof = profile_for(prop);
    prof.deep = j.get("tier").and_then(|t| t.as_str()) == Some("thorough");
    let mut st = Stats::default();
    let out = run_one(&prof, Chooser::replay(choices), &mut st, &known, true);
    for l in out.trace.clone().unwrap_or_default() {
        println!("{}", l);
    }
    match &out.violation {
        Some(v) if v.sig == sig => {
            println!("reproduced: {}", v.sig);
            println!("  {}", v.msg);
            println!("VIOLATION property={} replay={}", prop.id(), path);
            1
        }
        Some(v) => {
            println!("a different violation occurred: {} ({})", v.sig, v.msg);
            println!("VIOLATION property={} replay={}", prop.id(), path);
            1
        }
        None => {
            for s in out.known_hit.iter() {
                println!("KNOWN-FINDING: property={} {}", prop.id(), s);
            }
            println!("replay of {} does not violate {} on this tree (recorded signature: {})", path, prop.id(), sig);
            0
        }
    }
}
