//! Node application operations (the workload alphabet A1..A11), the foreign node
//! (W10) and the encode-side oracles (C04, C07, C16).

use libmctp::mctp_traits::SMBusMCTPRequestResponse;
use libmctp::smbus::MCTPSMBusContext;

use crate::calls::*;
use crate::profile::*;
use crate::real::Len;
use crate::refmodel::{crc8, fix_pec, hex, Forge};
use crate::rng::fill;
use crate::sim::*;
use crate::stats::*;
use crate::trap::trap;

impl<'c, 's> Run<'c, 's> {
    pub fn peer(&mut self, ni: usize) -> usize {
        let n = self.nodes.len();
        let k = self.ch.choose((n - 1) as u32) as usize;
        (ni + 1 + k) % n
    }

    pub fn push_frame(&mut self, f: Frame) -> usize {
        self.frames.push(f);
        let fi = self.frames.len() - 1;
        self.pending.push(fi);
        fi
    }

    fn logical(&mut self) -> u32 {
        let l = self.next_logical;
        self.next_logical += 1;
        l
    }

    pub fn app_op(&mut self) {
        let ni = self.ch.choose(self.nodes.len() as u32) as usize;
        let w = self.cfg.ops_w;
        let op = self.ch.weighted(&w);
        self.st.probe(OP_NAMES[op]);
        match op {
            OP_REQ => self.op_request(ni),
            OP_VENDOR => self.op_vendor(ni),
            OP_SPDM => self.op_spdm(ni),
            OP_MANUAL => self.op_manual(ni),
            OP_UUID => self.op_uuid(ni),
            OP_EIDACC => self.op_eidacc(ni),
            OP_DECODEONLY => self.op_decode_only(ni),
            OP_WALK => self.op_walk(ni),
            OP_INVALID => self.op_invalid(ni),
            OP_RESTART => self.op_restart(ni, false),
            OP_FORGE => self.op_forge(ni),
            OP_NONMCTP => self.op_nonmctp(ni),
            _ => self.op_garbage(ni),
        }
    }

    /// a byte value: fresh random, an edge value, or a value already present in this run
    /// (addresses, EIDs, lengths, counts, header and PEC bytes of earlier frames) — real
    /// systems are full of such coincidences and uniform draws almost never produce them
    pub fn vbyte(&mut self) -> u8 {
        match self.ch.choose(4) {
            0 | 1 => self.ch.byte(),
            2 => [0x00u8, 0xFF, 0x01, 0xFE, 0x7F, 0x80, 0x0F, 0x10][self.ch.choose(8) as usize],
            _ => {
                if self.dict.is_empty() {
                    self.ch.byte()
                } else {
                    self.st.probe("value-reused-from-run-dictionary");
                    let k = self.ch.choose(self.dict.len() as u32) as usize;
                    self.dict[k]
                }
            }
        }
    }

    pub fn dict_add(&mut self, v: u8) {
        if self.dict.len() >= 96 {
            let k = self.dict_pos % 96;
            self.dict[k] = v;
        } else {
            self.dict.push(v);
        }
        self.dict_pos += 1;
    }

    fn rand_fill(&mut self, len: usize) -> Vec<u8> {
        let mut v = vec![0u8; len];
        let s = self.ch.choose(1 << 16);
        fill(s, &mut v);
        if len > 0 {
            // plant up to two values from the run's dictionary
            let k = self.ch.choose(3);
            for _ in 0..k {
                let pos = self.ch.choose(len as u32) as usize;
                v[pos] = self.vbyte();
            }
        }
        v
    }

    fn body_len(&mut self, limit_hint: usize) -> usize {
        if self.ch.chance(self.cfg.big_pm, 1000) {
            // across the SMBus limit: totals 250..275
            self.st.probe("body-near-limit");
            limit_hint.saturating_sub(9) + self.ch.choose(28) as usize
        } else if self.ch.choose(8) == 7 {
            // anywhere between empty and the limit (powers of two and other mid-range lengths)
            match self.ch.choose(3) {
                0 => [15usize, 16, 31, 32, 63, 64, 65, 127, 128, 129, 200][self.ch.choose(11) as usize].min(limit_hint),
                _ => self.ch.choose(limit_hint as u32 + 1) as usize,
            }
        } else {
            self.ch.size(40) as usize
        }
    }

    // ------------------------------------------------------------ A1 / A9

    fn op_request(&mut self, ni: usize) {
        let active = self.nodes[ni].out.iter().filter(|o| !o.done).count();
        if active >= self.cfg.max_out {
            self.st.probe("outstanding-cap-reached");
            return;
        }
        let w = self.prof.req_kinds;
        let kind = self.ch.weighted(&w) as u8;
        let pi = self.peer(ni);
        self.send_request(ni, pi, kind, None);
    }

    /// build and queue one control request; `walk` = (walk id, selector) for A8 queries
    pub fn send_request(&mut self, ni: usize, pi: usize, kind: u8, walk: Option<(usize, u8)>) {
        let dest = self.nodes[pi].cfg.addr;
        let mut a = [0u8; 3];
        let mut uuid = [0u8; 16];
        let mut entries: Vec<[u8; 4]> = Vec::new();
        match kind {
            0 => {
                let ow = [4, 3, 1, 2];
                a[0] = self.ch.weighted(&ow) as u8;
                a[1] = match self.ch.choose(5) {
                    0 => 0x08 + ni as u8,
                    1 => 1 + self.ch.choose(254) as u8,
                    2 => [0x01u8, 0xFE, 0x80, 0x7F][self.ch.choose(4) as usize],
                    3 => 0x08 + self.ch.choose(4) as u8,
                    _ => {
                        // an EID equal to something else in the system (an address, a count, ...)
                        let v = self.vbyte();
                        if v == 0x00 || v == 0xFF {
                            0x08
                        } else {
                            v
                        }
                    }
                };
                let e = a[1];
                self.dict_add(e);
                match a[0] {
                    1 => self.st.probe("force-used"),
                    3 => self.st.probe("set-discovered-flag-used"),
                    _ => {}
                }
            }
            3 => a[0] = self.ch.choose(5) as u8,
            5 => {
                let n = self.nodes[pi].cfg.vplain.len() as u32;
                a[0] = match walk {
                    Some((_, sel)) => sel,
                    None => {
                        if self.ch.chance(60, 1000) {
                            [n as u8, n as u8 + 1, 0xFF, 0xFE][self.ch.choose(4) as usize]
                        } else {
                            self.ch.choose(n) as u8
                        }
                    }
                };
            }
            6 | 9 => a[0] = self.vbyte(),
            7 => {
                a[0] = self.ch.choose(3) as u8;
                a[1] = self.vbyte();
                a[2] = self.vbyte();
            }
            8 => {
                let k = self.ch.choose(8) as usize;
                for _ in 0..k {
                    let v = self.rand_fill(4);
                    entries.push([v[0], v[1], v[2], v[3]]);
                }
            }
            14 => {
                a[0] = self.vbyte();
                a[1] = self.ch.choose(6) as u8;
            }
            15 => {
                let v = self.rand_fill(16);
                uuid.copy_from_slice(&v);
                a[0] = self.vbyte();
            }
            _ => {}
        }
        let call = Call::Req { kind, dest, a, uuid, entries };
        let mut f = match self.encode(ni, &call) {
            Some(f) => f,
            None => {
                if let Some((w, _)) = walk {
                    self.walks[w].abandoned = true;
                }
                return;
            }
        };
        // A9: forge the instance ID (the request encoders always emit 0)
        let mut iid = 0u8;
        if self.ch.chance(self.cfg.forge_iid_pm, 1000) && f.bytes.len() >= 12 {
            iid = self.ch.choose(32) as u8;
            if iid != 0 {
                f.bytes[9] = (f.bytes[9] & 0xE0) | iid;
                fix_pec(&mut f.bytes);
                f.orig = f.bytes.clone();
                f.origin = Origin::Patched;
                f.expect = None;
                self.st.probe("instance-id-forged-nonzero");
            }
        }
        let cmd = if f.bytes.len() > 10 { f.bytes[10] } else { 0 };
        f.req = Some(ReqMeta { requester: ni, cmd, iid, walk: walk.map(|w| w.0), selector: a[0] });
        let logical = f.logical;
        let bytes = f.bytes.clone();
        self.push_frame(f);
        self.nodes[ni].issued.push((dest, iid, cmd));
        if kind <= 5 {
            let retries = self.cfg.retries;
            self.nodes[ni].out.push(Outst {
                logical,
                dest_addr: dest,
                iid,
                cmd,
                bytes,
                retries_left: retries,
                walk: walk.map(|w| w.0),
                selector: a[0],
                done: false,
            });
            let n_out = self.nodes[ni].out.iter().filter(|o| !o.done).count();
            if n_out >= 2 {
                self.st.probe("several-requests-outstanding");
            }
            let at = self.now + self.cfg.timeout_us;
            self.schedule(at, Ev::Retry { node: ni, logical });
        }
    }

    pub fn on_retry(&mut self, ni: usize, logical: u32) {
        let idx = match self.nodes[ni].out.iter().position(|o| o.logical == logical && !o.done) {
            Some(i) => i,
            None => return,
        };
        if self.nodes[ni].out[idx].retries_left == 0 {
            // give up
            let w = self.nodes[ni].out[idx].walk;
            self.nodes[ni].out[idx].done = true;
            if let Some(w) = w {
                self.walks[w].abandoned = true;
            }
            self.st.probe("request-abandoned-after-retries");
            return;
        }
        self.nodes[ni].out[idx].retries_left -= 1;
        let o = self.nodes[ni].out[idx].clone();
        self.st.probe("requester-retry");
        if o.walk.is_some() {
            self.st.probe("retry-same-selector");
        }
        self.ev("retry", &[ni as u64, logical as u64], &[]);
        let f = Frame {
            bytes: o.bytes.clone(),
            orig: o.bytes.clone(),
            src: Some(ni),
            origin: Origin::Patched,
            api: "retry",
            expect: None,
            n_alter: 0,
            burst_only: false,
            logical,
            cause: None,
            cause_clean: false,
            req: Some(ReqMeta { requester: ni, cmd: o.cmd, iid: o.iid, walk: o.walk, selector: o.selector }),
            force_dest: None,
        };
        self.push_frame(f);
        let at = self.now + self.cfg.timeout_us;
        self.schedule(at, Ev::Retry { node: ni, logical });
    }

    // ------------------------------------------------------------ A2 / A3 / A4

    fn op_vendor(&mut self, ni: usize) {
        let pi = self.peer(ni);
        let dest = self.nodes[pi].cfg.addr;
        let format = self.ch.choose(2) as u8;
        let data = (self.ch.choose(1 << 16) << 16) | self.ch.choose(1 << 16);
        let limit = if format == 1 { 245 } else { 247 };
        let bl = self.body_len(limit);
        let body = self.rand_fill(bl);
        if format == 1 {
            self.st.probe("iana-vendor-message");
        }
        let call = Call::Vendor { dest, format, data, body };
        if let Some(f) = self.encode(ni, &call) {
            self.push_frame(f);
        }
    }

    fn op_spdm(&mut self, ni: usize) {
        let pi = self.peer(ni);
        let dest = self.nodes[pi].cfg.addr;
        let secured = self.ch.choose(2) == 1;
        let hdr = match self.ch.choose(3) {
            0 => None,
            1 => Some(self.rand_fill(1)),
            _ => {
                let l = 1 + self.ch.choose(4) as usize;
                Some(self.rand_fill(l))
            }
        };
        let hl = hdr.as_ref().map(|h| h.len()).unwrap_or(0);
        let bl = self.body_len(249 - hl);
        let body = self.rand_fill(bl);
        let half = self.ch.choose(2) as u8;
        // one call in four goes to the trait's packet generators directly
        let call = match self.ch.choose(4) {
            3 => {
                let kind = self.ch.choose(3) as u8;
                let hdr = if kind == 0 {
                    // control: Rq set, a command without fixed request length
                    let cmd = [0x0Bu8, 0x0C, 0x0D, 0x11, 0x05, 0x03][self.ch.choose(6) as usize];
                    Some(vec![0x80, cmd])
                } else {
                    hdr
                };
                self.st.probe("trait-packet-generator-called-directly");
                Call::Raw { kind, dest, hdr, body, half }
            }
            _ => Call::Spdm { dest, secured, hdr, body, half },
        };
        if let Some(f) = self.encode(ni, &call) {
            self.push_frame(f);
        }
    }

    fn op_manual(&mut self, ni: usize) {
        let pi = self.peer(ni);
        let dest = self.nodes[pi].cfg.addr;
        let kind = self.ch.choose(6) as u8;
        let cc = self.ch.weighted(&[5, 1, 1, 1, 1, 1]) as u8;
        let a = [self.ch.choose(2) as u8, self.ch.choose(4) as u8, self.vbyte()];
        let mut uuid = [0u8; 16];
        if kind == 2 {
            match self.ch.choose(5) {
                1 => {}                  // the nil UUID is a UUID too
                2 => uuid = [0xFF; 16],
                _ => {
                    let v = self.rand_fill(16);
                    uuid.copy_from_slice(&v);
                }
            }
        }
        let list = match kind {
            4 => {
                let l = match self.ch.choose(3) {
                    0 => self.ch.choose(4) as usize,
                    1 => 28 + self.ch.choose(3) as usize,
                    _ => self.ch.choose(31) as usize,
                };
                self.rand_fill(l)
            }
            5 => {
                let l = self.ch.choose(8) as usize;
                self.rand_fill(l)
            }
            _ => Vec::new(),
        };
        let call = Call::Resp { kind, dest, cc, a, uuid, list };
        if let Some(f) = self.encode(ni, &call) {
            self.push_frame(f);
        }
    }

    // ------------------------------------------------------------ A5 / A6 / A7 / A11

    fn op_uuid(&mut self, ni: usize) {
        let mut u = [0u8; 16];
        match self.ch.choose(6) {
            // the nil UUID, all ones, and re-installing the current value are UUIDs too
            1 => self.st.probe("uuid-update-to-nil"),
            2 => u = [0xFF; 16],
            3 => u = self.nodes[ni].m_uuid,
            4 => {
                u = self.nodes[ni].m_uuid;
                let k = self.ch.choose(16) as usize;
                u[k] ^= 1 << self.ch.choose(8);
            }
            _ => {
                let v = self.rand_fill(16);
                u.copy_from_slice(&v);
            }
        }
        self.nodes[ni].ctx.set_uuid(&u);
        self.nodes[ni].twin.set_uuid(&u);
        self.nodes[ni].m_uuid = u;
        self.ev("app.set_uuid", &[ni as u64], &u);
        self.check_state(ni, "after-set-uuid");
    }

    fn op_eidacc(&mut self, ni: usize) {
        let half = self.ch.choose(2);
        let v = match self.ch.choose(3) {
            0 => 0x20 + ni as u8,
            1 => self.vbyte(),
            _ => [0x00u8, 0xFF, 0x01, 0xFE][self.ch.choose(4) as usize],
        };
        self.dict_add(v);
        if half == 0 {
            self.nodes[ni].ctx.get_request().set_eid(v);
            self.nodes[ni].twin.get_request().set_eid(v);
            self.nodes[ni].m_eid_req = Some(v);
        } else {
            self.nodes[ni].ctx.get_response().set_eid(v);
            self.nodes[ni].twin.get_response().set_eid(v);
            self.nodes[ni].m_eid_resp = Some(v);
        }
        if self.nodes[ni].m_eid_req != self.nodes[ni].m_eid_resp {
            self.st.probe("halves-diverged-by-accessor");
        }
        self.ev("app.set_eid", &[ni as u64, half as u64, v as u64], &[]);
        self.check_state(ni, "after-accessor-write");
    }

    fn op_decode_only(&mut self, ni: usize) {
        if self.frames.is_empty() {
            return;
        }
        let span = self.frames.len().min(8);
        let k = self.ch.choose(span as u32) as usize;
        let fi = self.frames.len() - 1 - k;
        let bytes = self.frames[fi].bytes.clone();
        self.ev("app.decode_only", &[ni as u64, fi as u64], &[]);
        self.decode_only(ni, &bytes, Some(fi), "after-decode-only");
    }

    pub fn op_restart(&mut self, ni: usize, after_panic: bool) {
        let nc = self.nodes[ni].cfg;
        let mut ctx = MCTPSMBusContext::new(nc.addr, &nc.types, &nc.vendors);
        let mut u = [0u8; 16];
        if let Some(b) = nc.boot_uuid {
            ctx.set_uuid(&b);
            u = b;
        }
        let mut twin = MCTPSMBusContext::new(nc.addr, &nc.types, &nc.vendors);
        if let Some(b) = nc.boot_uuid {
            twin.set_uuid(&b);
        }
        let node = &mut self.nodes[ni];
        node.ctx = ctx;
        node.twin = twin;
        node.m_eid_req = Some(0);
        node.m_eid_resp = Some(0);
        node.m_uuid = u;
        for o in node.out.iter_mut() {
            o.done = true;
        }
        for w in self.walks.iter_mut() {
            if w.requester == ni && !w.done {
                w.abandoned = true;
            }
        }
        self.fault(if after_panic { F_PANIC_RESTART } else { F_RESTART });
        self.ev("node.restart", &[ni as u64, after_panic as u64], &[]);
        self.check_state(ni, "after-restart");
    }

    // ------------------------------------------------------------ A8

    fn op_walk(&mut self, ni: usize) {
        let active = self.nodes[ni].out.iter().filter(|o| !o.done).count();
        if active >= self.cfg.max_out {
            self.st.probe("outstanding-cap-reached");
            return;
        }
        let pi = self.peer(ni);
        let others = self.walks.iter().filter(|w| w.responder == pi && !w.done && !w.abandoned).count();
        if others >= 1 {
            self.st.probe("two-walkers-interleaved");
        }
        self.walks.push(Walk { requester: ni, responder: pi, cur: 0, seen: Vec::new(), done: false, exchanges: 0, abandoned: false });
        let wi = self.walks.len() - 1;
        self.ev("app.walk_start", &[ni as u64, pi as u64, wi as u64], &[]);
        self.send_request(ni, pi, 5, Some((wi, 0)));
    }

    // ------------------------------------------------------------ A10

    fn op_invalid(&mut self, ni: usize) {
        let pi = self.peer(ni);
        let dest = self.nodes[pi].cfg.addr;
        let call = match self.ch.choose(4) {
            0 => {
                let e = if self.ch.choose(2) == 0 { 0x00 } else { 0xFF };
                Call::Req { kind: 0, dest, a: [self.ch.choose(4) as u8, e, 0], uuid: [0; 16], entries: Vec::new() }
            }
            1 => {
                // "more routing entries than fit (8 or more)": just over, and far over (counts that wrap a byte)
                let k = match self.ch.choose(3) {
                    0 => 8 + self.ch.choose(3) as usize,
                    1 => [255usize, 256, 257, 263, 264, 512, 519][self.ch.choose(7) as usize],
                    _ => 8 + self.ch.choose(300) as usize,
                };
                let mut entries = Vec::new();
                for _ in 0..k {
                    let v = self.rand_fill(4);
                    entries.push([v[0], v[1], v[2], v[3]]);
                }
                Call::Req { kind: 8, dest, a: [0; 3], uuid: [0; 16], entries }
            }
            2 => {
                // "more than 30 message types": just over, and far over (lengths that wrap a byte)
                let l = match self.ch.choose(3) {
                    0 => 31 + self.ch.choose(10) as usize,
                    1 => [255usize, 256, 257, 286, 287, 300, 512, 542][self.ch.choose(8) as usize],
                    _ => 31 + self.ch.choose(600) as usize,
                };
                let list = self.rand_fill(l);
                Call::Resp { kind: 4, dest, cc: self.ch.choose(6) as u8, a: [0; 3], uuid: [0; 16], list }
            }
            _ => {
                let format = 2 + self.ch.choose(254) as u8;
                let bl = self.ch.size(20) as usize;
                let body = self.rand_fill(bl);
                Call::Vendor { dest, format, data: self.ch.choose(1 << 16), body }
            }
        };
        self.st.probe("documented-invalid-argument-call");
        let _ = self.encode(ni, &call);
    }

    // ------------------------------------------------------------ W10 / garbage

    fn op_forge(&mut self, ni: usize) {
        // `ni` is the victim; the sender is a foreign device (may pretend any source)
        let dest = self.nodes[ni].cfg.addr;
        let src = if self.ch.choose(2) == 0 { 0x55 } else { self.ch.choose(128) as u8 };
        let n_sets = self.nodes[ni].cfg.vplain.len() as u8;
        let shape = self.ch.weighted(&[6, 5, 2, 2, 2, 2, 2]);
        let mut fg = Forge {
            dest,
            src,
            cmd_code: 0x0F,
            byte_count_delta: 0,
            b4: 0x01,
            dest_eid: dest,
            src_eid: src,
            flags: 0xC8,
            b8: 0x00,
            body: Vec::new(),
            good_pec: true,
        };
        match shape {
            0 => {
                // control request
                let cmd = match self.ch.choose(3) {
                    0 => 1 + self.ch.choose(6) as u8,
                    1 => self.ch.choose(0x16) as u8,
                    _ => self.vbyte(),
                };
                let iid = self.ch.choose(32) as u8;
                let mut body = vec![0x80 | iid, cmd];
                let dl = match crate::refmodel::fixed_req_len(cmd) {
                    Some(l) if self.ch.choose(4) != 3 => l,
                    _ => self.ch.choose(6) as usize,
                };
                let mut data = self.rand_fill(dl);
                if cmd == 1 && dl == 2 {
                    data[0] = match self.ch.choose(4) {
                        0 => 0,
                        1 => 1,
                        2 => 3,
                        _ => self.vbyte(),
                    };
                    if self.ch.choose(4) != 3 {
                        data[1] = 1 + self.ch.choose(254) as u8;
                    } else {
                        data[1] = [0x00u8, 0xFF][self.ch.choose(2) as usize];
                    }
                }
                if cmd == 6 && dl == 1 {
                    data[0] = match self.ch.choose(4) {
                        0 => 0,
                        1 => self.ch.choose(n_sets as u32) as u8,
                        2 => n_sets,
                        _ => self.vbyte(),
                    };
                }
                body.extend_from_slice(&data);
                fg.body = body;
                if self.ch.choose(4) == 3 {
                    // other implementations address an endpoint by the EID it was assigned
                    fg.dest_eid = self.nodes[ni].ctx.get_response().get_eid();
                    self.st.probe("forged-request-addressed-by-assigned-eid");
                }
            }
            1 => {
                // control response
                let cmd = match self.ch.choose(3) {
                    0 => 1 + self.ch.choose(6) as u8,
                    1 => self.ch.choose(0x16) as u8,
                    _ => self.vbyte(),
                };
                let cc = match self.ch.choose(4) {
                    0 | 1 => 0,
                    2 => 1 + self.ch.choose(5) as u8,
                    _ => self.vbyte(),
                };
                let iid = self.ch.choose(32) as u8;
                let mut body = vec![iid, cmd, cc];
                let dl = match crate::refmodel::fixed_resp_len(cmd) {
                    Some(l) if self.ch.choose(4) != 3 => l,
                    _ => self.ch.choose(20) as usize,
                };
                body.extend_from_slice(&self.rand_fill(dl));
                fg.body = body;
                fg.flags = 0xC0;
            }
            2 => {
                fg.b8 = 0x7E;
                let l = self.ch.size(30) as usize;
                fg.body = self.rand_fill(l);
            }
            3 => {
                fg.b8 = 0x7F;
                let l = self.ch.size(30) as usize;
                fg.body = self.rand_fill(l);
            }
            4 => {
                fg.b8 = 0x05;
                let l = self.ch.size(30) as usize;
                fg.body = self.rand_fill(l);
            }
            5 => {
                fg.b8 = 0x06;
                let l = self.ch.size(30) as usize;
                fg.body = self.rand_fill(l);
            }
            _ => {
                // one of the 123 unsupported message types
                fg.b8 = self.ch.choose(128) as u8;
                let l = self.ch.size(20) as usize;
                fg.body = self.rand_fill(l);
            }
        }
        // field variants outside what libmctp emits
        if !self.ch.chance(self.prof.forge_valid_pc, 100) {
            let k = 1 + self.ch.choose(2);
            for _ in 0..k {
                match self.ch.choose(13) {
                    0 => fg.b4 = self.vbyte(),
                    1 => fg.b4 = 0x01 | (1 << (4 + self.ch.choose(4))),
                    2 => fg.b4 = self.ch.choose(16) as u8,
                    3 => fg.b8 |= 0x80,
                    4 => {
                        if !fg.body.is_empty() {
                            fg.body[0] ^= 0x40 >> self.ch.choose(2);
                        }
                    }
                    5 => fg.flags = self.vbyte(),
                    6 => fg.byte_count_delta = self.ch.choose(9) as i32 - 4,
                    7 => {
                        // long bodies up to the SMBus maximum and just below/above 256
                        let target = [259usize, 256, 257, 258, 255, 200][self.ch.choose(6) as usize];
                        let have = 10 + fg.body.len();
                        if target > have {
                            let extra = self.rand_fill(target - have);
                            fg.body.extend_from_slice(&extra);
                        }
                    }
                    8 => fg.good_pec = false,
                    9 => fg.src_eid = self.vbyte(),
                    10 => fg.dest_eid = self.vbyte(),
                    11 => {
                        let l = fg.body.len();
                        if l > 0 {
                            let cut = self.ch.choose(l as u32) as usize;
                            fg.body.truncate(cut);
                        }
                    }
                    _ => {
                        // header-role confusion (round 6): any other combination of the Rq / D /
                        // reserved bits on an otherwise request- or response-shaped body, e.g. a
                        // Set-EID-shaped body under Rq=0/D=1
                        if !fg.body.is_empty() {
                            fg.body[0] ^= ((1 + self.ch.choose(7)) as u8) << 5;
                            self.st.probe("forged-control-flag-combination");
                        }
                    }
                }
            }
        }
        let bytes = fg.bytes();
        self.fault(F_FOREIGN_FORGED);
        let logical = self.logical();
        let f = Frame {
            orig: bytes.clone(),
            bytes,
            src: None,
            origin: Origin::Forged,
            api: "foreign.forged",
            expect: None,
            n_alter: 0,
            burst_only: false,
            logical,
            cause: None,
            cause_clean: false,
            req: None,
            force_dest: None,
        };
        self.push_frame(f);
    }

    fn op_nonmctp(&mut self, ni: usize) {
        let dest = self.nodes[ni].cfg.addr;
        let l = 3 + self.ch.size(24) as usize;
        let mut bytes = self.rand_fill(l);
        bytes[0] = dest << 1;
        if bytes[1] == 0x0F {
            bytes[1] = 0x0E + 2 * self.ch.choose(2) as u8;
        }
        self.fault(F_FOREIGN_NONMCTP);
        let logical = self.logical();
        let f = Frame {
            orig: bytes.clone(),
            bytes,
            src: None,
            origin: Origin::NonMctp,
            api: "foreign.non_mctp",
            expect: None,
            n_alter: 0,
            burst_only: false,
            logical,
            cause: None,
            cause_clean: false,
            req: None,
            force_dest: None,
        };
        self.push_frame(f);
    }

    fn op_garbage(&mut self, ni: usize) {
        if self.prof.prop == Prop::C17 && self.ch.choose(6) == 5 {
            // a driver that hands the probe its whole (huge) DMA ring: lengths around 2^16
            let l = [65535usize, 65536, 65537, 65538, 66000, 4096][self.ch.choose(6) as usize];
            let mut big = vec![0u8; l];
            let sd = 1 + self.ch.choose(1 << 16);
            fill(sd, &mut big[..64]);
            if self.ch.choose(4) != 0 {
                big[1] = 0x0F;
            }
            let r = crate::real::get_length(&self.nodes[ni].ctx, &big);
            let _ = crate::real::get_length(&self.nodes[ni].twin, &big);
            self.st.lib_calls += 2;
            self.st.probe("probe-on-64KiB-buffer");
            self.ev("probe.giant", &[ni as u64, l as u64], &big[..8]);
            self.probe_oracles(ni, &big, r, None);
            return;
        }
        let bytes = match self.ch.choose(4) {
            0 => {
                let l = self.ch.size(259) as usize;
                self.rand_fill(l)
            }
            3 => {
                // noise that happens to carry the MCTP command code in byte 1
                let l = 3 + self.ch.choose(38) as usize;
                let mut b = vec![0u8; l];
                let s = 1 + self.ch.choose((1 << 24) - 1);
                fill(s, &mut b);
                b[1] = 0x0F;
                if self.ch.choose(2) == 1 {
                    b[0] = self.nodes[ni].cfg.addr << 1;
                }
                self.st.probe("garbage-with-mctp-command-code");
                b
            }
            1 if !self.frames.is_empty() => {
                // a prefix of an earlier frame (every truncation point), optionally with a random tail
                let k = self.ch.choose(self.frames.len().min(8) as u32) as usize;
                let src = self.frames[self.frames.len() - 1 - k].orig.clone();
                let cut = self.ch.choose(src.len() as u32 + 1) as usize;
                let mut b = src[..cut].to_vec();
                if self.ch.choose(2) == 1 {
                    let t = self.ch.size(12) as usize;
                    b.extend_from_slice(&self.rand_fill(t));
                }
                b
            }
            _ => {
                // MCTP-looking header followed by noise
                let l = self.ch.size(40) as usize;
                let mut b = vec![self.nodes[ni].cfg.addr << 1, 0x0F, 0, 0x21, 0x01, 0, 0, 0xC8];
                b.push([0x00u8, 0x7E, 0x7F, 0x05, 0x06][self.ch.choose(5) as usize]);
                b.extend_from_slice(&self.rand_fill(l));
                b[2] = (b.len() as u8).wrapping_sub(3);
                if self.ch.choose(2) == 1 {
                    let c = crc8(&b);
                    b.push(c);
                }
                b
            }
        };
        self.fault(F_GARBAGE);
        let logical = self.logical();
        let f = Frame {
            orig: bytes.clone(),
            bytes,
            src: None,
            origin: Origin::Garbage,
            api: "garbage",
            expect: None,
            n_alter: 0,
            burst_only: false,
            logical,
            cause: None,
            cause_clean: false,
            req: None,
            force_dest: Some(ni),
        };
        self.push_frame(f);
    }

    // ------------------------------------------------------------ encode + C04 / C07 / C16

    /// Call a real encoder on node `ni`'s persistent, dirty TX buffer.
    pub fn encode(&mut self, ni: usize, call: &Call) -> Option<Frame> {
        let cap = self.nodes[ni].tx.len();
        // a documented-invalid call must be refused whatever the buffer: it needs no room
        let need = if call.documented_invalid() { call.predicted_len().min(cap) } else { call.predicted_len() };
        if need > cap {
            self.st.probe("tx-buffer-too-small-op-skipped");
            return None;
        }
        let extra = match self.ch.choose(4) {
            0 => cap - need,
            1 => 0,
            2 => 1,
            _ => 7,
        };
        let slice_len = (need + extra).min(cap);
        let before = self.nodes[ni].tx.clone();
        let poison = self.nodes[ni].cfg.poison_tx;
        if self.nodes[ni].tx_used {
            self.st.faults[F_DIRTY_BUF] += 1;
        }
        let addr = self.nodes[ni].cfg.addr;
        let api = call.api();
        let r = {
            let node = &mut self.nodes[ni];
            let (ctx, tx) = (&node.ctx, &mut node.tx);
            trap(|| call.invoke(ctx, &mut tx[..slice_len]))
        };
        self.st.lib_calls += 1;
        self.nodes[ni].tx_used = true;
        {
            // the twin makes the same encoder call into its own persistent buffer
            let rt = {
                let node = &mut self.nodes[ni];
                let (tw, ttx) = (&node.twin, &mut node.twin_tx);
                trap(|| call.invoke(tw, &mut ttx[..slice_len]))
            };
            let show = |r: &Result<Result<usize, ()>, (crate::trap::PanicKind, String)>, buf: &[u8]| match r {
                Ok(Ok(l)) => format!("Ok({}) {}", l, hex(&buf[..(*l).min(buf.len())])),
                Ok(Err(())) => "Err".to_string(),
                Err((k, _)) => format!("PANIC({})", k.name()),
            };
            let a = show(&r, &self.nodes[ni].tx);
            let b = show(&rt, &self.nodes[ni].twin_tx);
            self.twin_compare(ni, "encoder", a, b, &[]);
        }
        {
            let d = call.describe();
            self.dg.str(api);
            if self.tracing() {
                self.tr(format!("   node{} calls {} into tx[..{}] -> {:?}", ni, d, slice_len, r.as_ref().map_err(|e| e.0)));
            }
        }
        let after: Vec<u8> = self.nodes[ni].tx.clone();
        let invalid = call.documented_invalid();
        let fits = call.fits_smbus();
        // ---- C16: documented-invalid arguments
        if invalid {
            self.eval(Prop::C16, "C16/invalid-argument-refused");
            match &r {
                Ok(Ok(_)) => {
                    self.viol(Prop::C16, format!("C16/invalid-accepted/{}", api), format!("{} returned Ok for a documented-invalid argument", call.describe()));
                }
                Err((k, m)) => {
                    self.viol(
                        Prop::C16,
                        format!("C16/invalid-panic/{}/{}", api, k.name()),
                        format!("{} panicked ({}) instead of returning Err", call.describe(), m),
                    );
                }
                Ok(Err(())) => {
                    if after != before {
                        let at = (0..cap).find(|&i| after[i] != before[i]).unwrap_or(0);
                        self.viol(
                            Prop::C16,
                            format!("C16/invalid-touched-buffer/{}", api),
                            format!("{} returned Err but changed buffer byte {}", call.describe(), at),
                        );
                    }
                }
            }
            return None;
        }
        if call.out_of_shape() {
            return None;
        }
        if !fits {
            // C04: too large for the one-byte byte count => refused
            self.eval(Prop::C04, "C04/oversize-refused");
            self.st.probe("encode-beyond-smbus-limit");
            match &r {
                Ok(Ok(l)) => {
                    let msg = format!(
                        "{} needs {} bytes (> 259) but the encoder returned Ok({}) with byte count {:#04x}",
                        call.describe(),
                        need,
                        l,
                        after.get(2).copied().unwrap_or(0)
                    );
                    self.viol(Prop::C04, format!("C04/oversize-accepted/{}", api_family(api)), msg);
                }
                Err((k, m)) => {
                    self.viol(
                        Prop::C04,
                        format!("C04/oversize-panic/{}/{}", api_family(api), k.name()),
                        format!("{} needs {} bytes (> 259): panicked ({}) instead of refusing", call.describe(), need, m),
                    );
                }
                Ok(Err(())) => {}
            }
            return None;
        }
        if need >= 256 {
            self.st.probe("frame-256-259");
        }
        // ---- C16: every other argument that fits succeeds, without panicking
        self.eval(Prop::C16, "C16/valid-argument-encodes");
        let len = match r {
            Ok(Ok(l)) => l,
            Ok(Err(())) => {
                self.viol(
                    Prop::C16,
                    format!("C16/valid-refused/{}", api),
                    format!("{} fits the SMBus frame ({} bytes) but was refused", call.describe(), need),
                );
                return None;
            }
            Err((k, m)) => {
                self.viol(
                    Prop::C16,
                    format!("C16/panic/{}/{}", api_family(api), k.name()),
                    format!("{} ({} bytes, buffer {}) panicked: {}", call.describe(), need, slice_len, m),
                );
                return None;
            }
        };
        if len > slice_len {
            self.viol(Prop::C16, format!("C16/length-beyond-buffer/{}", api), format!("{} reported {} > buffer {}", call.describe(), len, slice_len));
            return None;
        }
        let bytes = self.nodes[ni].tx[..len].to_vec();
        // tail untouched
        self.eval(Prop::C16, "C16/tail-untouched");
        if let Some(i) = (len..cap).find(|&i| self.nodes[ni].tx[i] != before[i]) {
            self.viol(
                Prop::C16,
                format!("C16/tail-touched/{}", api_family(api)),
                format!("{} reported {} bytes but also changed buffer byte {} ({:#04x} -> {:#04x})", call.describe(), len, i, before[i], self.nodes[ni].tx[i]),
            );
        }
        // same call into a differently poisoned, differently sized buffer
        {
            let extra2 = if extra == 0 { 3 } else { 0 };
            let p2 = poison ^ 0x5A ^ (len as u8);
            let mut b2 = vec![p2; need.max(len) + extra2];
            let r2 = {
                let ctx = &self.nodes[ni].ctx;
                trap(|| call.invoke(ctx, &mut b2[..]))
            };
            self.st.lib_calls += 1;
            {
                // keep the twin's call history identical
                let mut b3 = vec![p2; need.max(len) + extra2];
                let tw = &self.nodes[ni].twin;
                let _ = trap(|| call.invoke(tw, &mut b3[..]));
            }
            self.eval(Prop::C16, "C16/independent-of-buffer");
            match r2 {
                Ok(Ok(l2)) if l2 == len && b2[..l2.min(b2.len())] == bytes[..] => {}
                other => {
                    let got = match &other {
                        Ok(Ok(l2)) => format!("Ok({}) {}", l2, hex(&b2[..(*l2).min(b2.len())])),
                        Ok(Err(())) => "Err".to_string(),
                        Err((k, _)) => format!("PANIC({})", k.name()),
                    };
                    self.viol(
                        Prop::C16,
                        format!("C16/depends-on-buffer/{}", api_family(api)),
                        format!(
                            "{}: into the node's dirty buffer -> Ok({}) {} ; into a fresh buffer with other poison/size -> {}",
                            call.describe(),
                            len,
                            hex(&bytes),
                            got
                        ),
                    );
                }
            }
        }
        // ---- C04: framing, byte count, reported length, probe on prefixes
        self.eval(Prop::C04, "C04/header-and-length");
        let dest = call.dest();
        if len >= 4 {
            let chk: [(&str, bool); 4] = [
                ("dest-addr", bytes[0] == (dest & 0x7F) << 1),
                ("command-code", bytes[1] == 0x0F),
                ("byte-count", bytes[2] as usize == len - 4),
                ("src-addr", bytes[3] == ((addr & 0x7F) << 1) | 1),
            ];
            for (name, ok) in chk {
                if !ok {
                    self.viol(
                        Prop::C04,
                        format!("C04/header/{}", name),
                        format!("{} from node addr {:#04x} -> Ok({}) {}", call.describe(), addr, len, hex(&bytes)),
                    );
                }
            }
            // the probe on prefixes of >= 3 bytes returns the encoder's length
            let ks = [3usize, 3 + self.ch.choose((len - 2) as u32) as usize, len];
            for k in ks {
                let k = k.min(len);
                let r = self.get_length_staged(ni, &bytes[..k]);
                self.eval(Prop::C04, "C04/probe-on-prefix");
                if r != Len::Ok(len) {
                    self.viol(
                        Prop::C04,
                        "C04/probe-prefix".into(),
                        format!("encoder returned {} but get_length on the {}-byte prefix of {} gives {:?}", len, k, hex(&bytes), r),
                    );
                }
            }
        } else {
            self.viol(Prop::C04, "C04/header/too-short".into(), format!("{} -> Ok({})", call.describe(), len));
        }
        // ---- C07: response layout
        if let Call::Resp { kind, cc, .. } = call {
            self.c07(ni, call, *kind, *cc, &bytes);
        }
        let logical = self.logical();
        self.ev("send", &[ni as u64, logical as u64], &bytes);
        if len >= 4 {
            self.dict_add(bytes[2]);
            self.dict_add(len as u8);
            self.dict_add(bytes[len - 1]);
            if len > 12 {
                self.dict_add(bytes[len - 2]);
            }
        }
        Some(Frame {
            orig: bytes.clone(),
            bytes,
            src: Some(ni),
            origin: Origin::Encoder,
            api,
            expect: Some(call.c01_expect()),
            n_alter: 0,
            burst_only: false,
            logical,
            cause: None,
            cause_clean: false,
            req: None,
            force_dest: None,
        })
    }

    fn c07(&mut self, ni: usize, call: &Call, kind: u8, cc: u8, f: &[u8]) {
        self.eval(Prop::C07, "C07/response-layout");
        let api = call.api();
        let n = f.len();
        if n < 13 {
            self.viol(Prop::C07, format!("C07/too-short/{}", api), format!("{} -> {}", call.describe(), hex(f)));
            return;
        }
        if f[9] & 0xE0 != 0 {
            self.viol(Prop::C07, format!("C07/control-header-bits/{}", api), format!("{}: byte 9 = {:#04x}, request/datagram/reserved bits must be clear ; {}", call.describe(), f[9], hex(f)));
        }
        if f[10] != RESP_CMD[kind as usize] {
            self.viol(Prop::C07, format!("C07/command-code/{}", api), format!("{}: byte 10 = {:#04x} ; {}", call.describe(), f[10], hex(f)));
        }
        if f[11] != cc {
            self.viol(Prop::C07, format!("C07/completion-code/{}", api), format!("{}: byte 11 = {:#04x}, supplied {} ; {}", call.describe(), f[11], cc, hex(f)));
        }
        if cc != 0 {
            return;
        }
        let (mut want, eid_at) = match call.c07_fields() {
            Some(x) => x,
            None => return,
        };
        let body = &f[12..n - 1];
        // "the endpoint's current EID" = what the context has stored (whether that is the right
        // value after the node's history is C13's question, not C07's)
        let (mq, ms) = {
            let nd = &self.nodes[ni];
            (Some(nd.ctx.get_request().get_eid()), Some(nd.ctx.get_response().get_eid()))
        };
        if ms.is_some() && ms != Some(0) {
            self.st.probe("c07-eid-from-history-nonzero");
        }
        let mut alt: Option<Vec<u8>> = None;
        if let Some(i) = eid_at {
            match (ms, mq) {
                (Some(s), Some(q)) => {
                    want[i] = s;
                    if q != s {
                        // halves diverged by an accessor write: the statement does not say which one is "current"
                        let mut w2 = want.clone();
                        w2[i] = q;
                        alt = Some(w2);
                    }
                }
                _ => {
                    // model unknown: compare everything but the EID byte
                    if body.len() == want.len() {
                        want[i] = body[i];
                    }
                }
            }
        }
        if body != &want[..] && alt.as_deref() != Some(body) {
            self.viol(
                Prop::C07,
                format!("C07/fields/{}", api),
                format!("{}: response fields {} but DSP0236 layout gives {} (model EID resp={:?} req={:?})", call.describe(), hex(body), hex(&want), ms, mq),
            );
        }
    }
}

/// encoders that share one packet writer are reported under one family so that a
/// finding in the writer is one entry, not thirty
pub fn api_family(api: &str) -> &'static str {
    if api.starts_with("req.vendor_defined") {
        "vendor"
    } else if api.starts_with("generate_spdm") {
        "spdm"
    } else if api.starts_with("generate_") {
        "trait-generator"
    } else if api.starts_with("resp.") {
        "control-response"
    } else {
        "control-request"
    }
}
