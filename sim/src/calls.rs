//! Encoder calls a node application can make (the workload alphabet's encode side),
//! invocation of the *real* libmctp encoders, and what the property statements say
//! about the result (lengths, C01 decode expectation, C07 layout).

use libmctp::base_packet::MessageType;
use libmctp::control_packet::{
    AllocateEndpointIDOperation, CompletionCode, MCTPGetEndpointIDEndpointIDType,
    MCTPGetEndpointIDEndpointType, MCTPSetEndpointIDAllocationStatus,
    MCTPSetEndpointIDAssignmentStatus, MCTPSetEndpointIDOperations, MCTPVersionQuery,
    RoutingInformationUpdateEntryType,
};
use libmctp::mctp_traits::SMBusMCTPRequestResponse;
use libmctp::smbus::MCTPSMBusContext;
use libmctp::smbus_proto::SMBusRoutingInformationUpdateEntry;
use libmctp::vendor_packets::VendorIDFormat;

use crate::refmodel::{T_CONTROL, T_IANA, T_PCI, T_SECURED, T_SPDM};

pub const N_REQ: usize = 17;
pub const N_RESP: usize = 6;

pub const REQ_NAMES: [&str; N_REQ] = [
    "req.set_endpoint_id",
    "req.get_endpoint_id",
    "req.get_endpoint_uuid",
    "req.get_mctp_version_support",
    "req.get_message_type_suport",
    "req.get_vendor_defined_message_support",
    "req.resolve_endpoint_id",
    "req.allocate_endpoint_ids",
    "req.routing_information_update",
    "req.get_routing_table_entries",
    "req.prepare_for_endpoint_discovery",
    "req.endpoint_discovery",
    "req.discovery_notify",
    "req.get_network_id",
    "req.query_hop",
    "req.resolve_uuid",
    "req.query_rate_limit",
];

pub const RESP_NAMES: [&str; N_RESP] = [
    "resp.set_endpoint_id",
    "resp.get_endpoint_id",
    "resp.get_endpoint_uuid",
    "resp.get_mctp_version_support",
    "resp.get_message_type_suport",
    "resp.get_vendor_defined_message_support",
];

/// command code answered by response encoder k
pub const RESP_CMD: [u8; N_RESP] = [1, 2, 3, 4, 5, 6];

#[derive(Clone, Debug)]
pub enum Call {
    /// one of the 17 control request encoders; `a` are its byte arguments in API order
    Req { kind: u8, dest: u8, a: [u8; 3], uuid: [u8; 16], entries: Vec<[u8; 4]> },
    /// one of the 6 control response encoders
    /// a[0] assignment/endpoint type, a[1] allocation/id type, a[2] fairness / selector
    Resp { kind: u8, dest: u8, cc: u8, a: [u8; 3], uuid: [u8; 16], list: Vec<u8> },
    /// vendor_defined(dest, VendorIDFormat{format,data,..}, msg)
    Vendor { dest: u8, format: u8, data: u32, body: Vec<u8> },
    /// generate_spdm_msg_packet_bytes(dest, SpdmOverMctp|SecuredMessages, header, data);
    /// half: 0 = through the request half, 1 = through the response half
    Spdm { dest: u8, secured: bool, hdr: Option<Vec<u8>>, body: Vec<u8>, half: u8 },
    /// the public packet generators of the SMBusMCTPRequestResponse trait called directly:
    /// kind 0 = generate_control_packet_bytes (hdr = [Rq|iid, command] of a command without fixed
    /// request length), 1 = generate_pci_msg_packet_bytes, 2 = generate_iana_msg_packet_bytes
    Raw { kind: u8, dest: u8, hdr: Option<Vec<u8>>, body: Vec<u8>, half: u8 },
}

fn cc_of(v: u8) -> CompletionCode {
    match v {
        0 => CompletionCode::Success,
        1 => CompletionCode::Error,
        2 => CompletionCode::ErrorInvalidData,
        3 => CompletionCode::ErrorInvalidLength,
        4 => CompletionCode::ErrorNotReady,
        _ => CompletionCode::ErrorUnsupportedCmd,
    }
}

pub const VERSION_QUERY_VALUES: [u8; 5] = [0xFF, 0x00, 0x01, 0x02, 0x03];
pub const MSGTYPE_VALUES: [u8; 6] = [0x00, 0x05, 0x06, 0x7E, 0x7F, 0xFF];

fn version_query(i: u8) -> MCTPVersionQuery {
    match i % 5 {
        0 => MCTPVersionQuery::MCTPBaseSpec,
        1 => MCTPVersionQuery::MCTPControlProcMessage,
        2 => MCTPVersionQuery::DSP0241,
        3 => MCTPVersionQuery::DSP0261,
        _ => MCTPVersionQuery::DSP0261_2,
    }
}

fn msg_type(i: u8) -> MessageType {
    match i % 6 {
        0 => MessageType::MCtpControl,
        1 => MessageType::SpdmOverMctp,
        2 => MessageType::SecuredMessages,
        3 => MessageType::VendorDefinedPCI,
        4 => MessageType::VendorDefinedIANA,
        _ => MessageType::Invalid,
    }
}

impl Call {
    pub fn dest(&self) -> u8 {
        match self {
            Call::Req { dest, .. } | Call::Resp { dest, .. } | Call::Vendor { dest, .. } | Call::Spdm { dest, .. } | Call::Raw { dest, .. } => *dest,
        }
    }

    pub fn api(&self) -> &'static str {
        match self {
            Call::Req { kind, .. } => REQ_NAMES[*kind as usize],
            Call::Resp { kind, .. } => RESP_NAMES[*kind as usize],
            Call::Vendor { format, .. } => match format {
                0 => "req.vendor_defined.pci",
                1 => "req.vendor_defined.iana",
                _ => "req.vendor_defined.badformat",
            },
            Call::Spdm { secured, .. } => {
                if *secured {
                    "generate_spdm_msg_packet_bytes.secured"
                } else {
                    "generate_spdm_msg_packet_bytes.spdm"
                }
            }
            Call::Raw { kind, .. } => match kind {
                0 => "generate_control_packet_bytes",
                1 => "generate_pci_msg_packet_bytes",
                _ => "generate_iana_msg_packet_bytes",
            },
        }
    }

    /// Arguments the API documents as invalid (C16): the call must return Err and
    /// leave the buffer untouched.
    pub fn documented_invalid(&self) -> bool {
        match self {
            Call::Req { kind: 0, a, .. } => a[1] == 0x00 || a[1] == 0xFF,
            Call::Req { kind: 8, entries, .. } => entries.len() >= 8,
            Call::Resp { kind: 4, list, .. } => list.len() > 30,
            Call::Vendor { format, .. } => *format >= 2,
            _ => false,
        }
    }

    /// Arguments outside the documented shapes (not generated by profiles; guards only).
    pub fn out_of_shape(&self) -> bool {
        matches!(self, Call::Resp { kind: 5, list, .. } if list.len() > 7)
    }

    /// Number of message-body bytes after the message-type byte (byte 8), per DSP0236.
    fn body_after_type(&self) -> usize {
        match self {
            Call::Req { kind, entries, .. } => {
                2 + match kind {
                    0 => 2,
                    1 | 2 | 4 => 0,
                    3 => 1,
                    5 => 1,
                    6 => 1,
                    7 => 3,
                    8 => 1 + 4 * entries.len(),
                    9 => 1,
                    10 | 11 | 12 | 13 => 0,
                    14 => 2,
                    15 => 17,
                    _ => 0,
                }
            }
            Call::Resp { kind, list, .. } => {
                3 + match kind {
                    0 => 3,
                    1 => 3,
                    2 => 16,
                    3 => 5,
                    4 => 1 + list.len(),
                    _ => 1 + list.len(),
                }
            }
            Call::Vendor { format, body, .. } => (if *format == 1 { 4 } else { 2 }) + body.len(),
            Call::Spdm { hdr, body, .. } | Call::Raw { hdr, body, .. } => hdr.as_ref().map(|h| h.len()).unwrap_or(0) + body.len(),
        }
    }

    /// Total packet length the encoding has (SMBus header 4 + transport 4 + type 1 + body + PEC 1).
    pub fn predicted_len(&self) -> usize {
        9 + self.body_after_type() + 1
    }

    /// Does the message fit the one-byte SMBus byte count (byte count = len - 4 <= 255)?
    pub fn fits_smbus(&self) -> bool {
        self.predicted_len() <= 259
    }

    /// Message type byte the API emits.
    pub fn mtype(&self) -> u8 {
        match self {
            Call::Req { .. } | Call::Resp { .. } => T_CONTROL,
            Call::Vendor { format, .. } => {
                if *format == 1 {
                    T_IANA
                } else {
                    T_PCI
                }
            }
            Call::Spdm { secured, .. } => {
                if *secured {
                    T_SECURED
                } else {
                    T_SPDM
                }
            }
            Call::Raw { kind, .. } => match kind {
                0 => T_CONTROL,
                1 => T_PCI,
                _ => T_IANA,
            },
        }
    }

    /// What C01 says decoding the exact encoded bytes yields.
    pub fn c01_expect(&self) -> Expect {
        match self {
            Call::Req { .. } | Call::Raw { kind: 0, .. } => Expect::Ok { mtype: T_CONTROL, start: 11 },
            Call::Resp { cc, .. } => {
                if *cc == 0 {
                    Expect::Ok { mtype: T_CONTROL, start: 12 }
                } else {
                    Expect::ErrCc(*cc)
                }
            }
            _ => Expect::Ok { mtype: self.mtype(), start: 9 },
        }
    }

    /// C07: bytes 12.. of a Success response, given the EID(s) the endpoint may report.
    /// Returns (fixed bytes, index of the EID byte if any).
    pub fn c07_fields(&self) -> Option<(Vec<u8>, Option<usize>)> {
        if let Call::Resp { kind, a, uuid, list, .. } = self {
            Some(match kind {
                0 => (vec![((a[0] & 1) << 4) | (a[1] % 3), 0, 0], Some(1)),
                1 => (vec![0, ((a[0] & 1) << 4) | (a[1] & 3), a[2] & 1], Some(0)),
                2 => (uuid.to_vec(), None),
                3 => (vec![1, 0xF1, 0xF3, 0xF1, 0x00], None),
                4 => {
                    let mut v = vec![list.len() as u8];
                    v.extend_from_slice(list);
                    (v, None)
                }
                _ => {
                    let mut v = vec![a[2]];
                    v.extend_from_slice(list);
                    (v, None)
                }
            })
        } else {
            None
        }
    }

    /// Invoke the real encoder on `ctx`, writing into `buf`.
    pub fn invoke(&self, ctx: &MCTPSMBusContext, buf: &mut [u8]) -> Result<usize, ()> {
        match self {
            Call::Req { kind, dest, a, uuid, entries } => {
                let r = ctx.get_request();
                let d = *dest;
                match kind {
                    0 => {
                        let op = match a[0] & 3 {
                            0 => MCTPSetEndpointIDOperations::SetEID,
                            1 => MCTPSetEndpointIDOperations::ForceEID,
                            2 => MCTPSetEndpointIDOperations::ResetEID,
                            _ => MCTPSetEndpointIDOperations::SetDiscoveredFlag,
                        };
                        r.set_endpoint_id(d, op, a[1], buf)
                    }
                    1 => r.get_endpoint_id(d, buf),
                    2 => r.get_endpoint_uuid(d, buf),
                    3 => r.get_mctp_version_support(d, version_query(a[0]), buf),
                    4 => r.get_message_type_suport(d, buf),
                    5 => r.get_vendor_defined_message_support(d, a[0], buf),
                    6 => r.resolve_endpoint_id(d, a[0], buf),
                    7 => {
                        let op = match a[0] % 3 {
                            0 => AllocateEndpointIDOperation::AllocateEIDs,
                            1 => AllocateEndpointIDOperation::ForceAllocation,
                            _ => AllocateEndpointIDOperation::GetAllocationInformation,
                        };
                        r.allocate_endpoint_ids(d, op, a[1], a[2], buf)
                    }
                    8 => {
                        let es: Vec<SMBusRoutingInformationUpdateEntry<[u8; 4]>> = entries
                            .iter()
                            .map(|e| {
                                let t = match e[0] & 3 {
                                    0 => RoutingInformationUpdateEntryType::SingleEndpointNotBridge,
                                    1 => RoutingInformationUpdateEntryType::EIDRangeIncludeBridge,
                                    2 => RoutingInformationUpdateEntryType::SingleEndpointBridge,
                                    _ => RoutingInformationUpdateEntryType::EIDRangeNotIncludeBridge,
                                };
                                SMBusRoutingInformationUpdateEntry::new(t, e[1], e[2], e[3])
                            })
                            .collect();
                        r.routing_information_update(d, &es, buf)
                    }
                    9 => r.get_routing_table_entries(d, a[0], buf),
                    10 => r.prepare_for_endpoint_discovery(d, buf),
                    11 => r.endpoint_discovery(d, buf),
                    12 => r.discovery_notify(d, buf),
                    13 => r.get_network_id(d, buf),
                    14 => r.query_hop(d, a[0], msg_type(a[1]), buf),
                    15 => r.resolve_uuid(d, uuid, a[0], buf),
                    _ => r.query_rate_limit(d, buf),
                }
            }
            Call::Resp { kind, dest, cc, a, uuid, list } => {
                let r = ctx.get_response();
                let d = *dest;
                match kind {
                    0 => {
                        let asg = if a[0] & 1 == 0 {
                            MCTPSetEndpointIDAssignmentStatus::Accpeted
                        } else {
                            MCTPSetEndpointIDAssignmentStatus::Rejected
                        };
                        let alc = match a[1] % 3 {
                            0 => MCTPSetEndpointIDAllocationStatus::NoIDPool,
                            1 => MCTPSetEndpointIDAllocationStatus::RequiresAllocation,
                            _ => MCTPSetEndpointIDAllocationStatus::AlreadyAllocated,
                        };
                        r.set_endpoint_id(cc_of(*cc), d, asg, alc, buf)
                    }
                    1 => {
                        let et = if a[0] & 1 == 0 {
                            MCTPGetEndpointIDEndpointType::Simple
                        } else {
                            MCTPGetEndpointIDEndpointType::Bus
                        };
                        let it = match a[1] & 3 {
                            0 => MCTPGetEndpointIDEndpointIDType::DynamicEID,
                            1 => MCTPGetEndpointIDEndpointIDType::StaticEID,
                            2 => MCTPGetEndpointIDEndpointIDType::StaticPresentMatchEID,
                            _ => MCTPGetEndpointIDEndpointIDType::StaticPresentNoMatchEID,
                        };
                        r.get_endpoint_id(cc_of(*cc), d, et, it, a[2] & 1 == 1, buf)
                    }
                    2 => r.get_endpoint_uuid(cc_of(*cc), d, uuid, buf),
                    3 => r.get_mctp_version_support(cc_of(*cc), d, buf),
                    4 => r.get_message_type_suport(cc_of(*cc), d, list, buf),
                    _ => r.get_vendor_defined_message_support(cc_of(*cc), d, a[2], list, buf),
                }
            }
            Call::Vendor { dest, format, data, body } => {
                let f = VendorIDFormat { format: *format, data: *data, numeric_value: 0 };
                ctx.get_request().vendor_defined(*dest, &f, body, buf)
            }
            Call::Raw { kind, dest, hdr, body, half } => {
                let h: Option<&[u8]> = hdr.as_deref();
                match (kind, half) {
                    (0, 0) => ctx.get_request().generate_control_packet_bytes(*dest, &h, body, buf),
                    (0, _) => ctx.get_response().generate_control_packet_bytes(*dest, &h, body, buf),
                    (1, 0) => ctx.get_request().generate_pci_msg_packet_bytes(*dest, &h, body, buf),
                    (1, _) => ctx.get_response().generate_pci_msg_packet_bytes(*dest, &h, body, buf),
                    (_, 0) => ctx.get_request().generate_iana_msg_packet_bytes(*dest, &h, body, buf),
                    (_, _) => ctx.get_response().generate_iana_msg_packet_bytes(*dest, &h, body, buf),
                }
            }
            Call::Spdm { dest, secured, hdr, body, half } => {
                let t = if *secured { MessageType::SecuredMessages } else { MessageType::SpdmOverMctp };
                let h: Option<&[u8]> = hdr.as_deref();
                if *half == 0 {
                    ctx.get_request().generate_spdm_msg_packet_bytes(*dest, t, &h, body, buf)
                } else {
                    ctx.get_response().generate_spdm_msg_packet_bytes(*dest, t, &h, body, buf)
                }
            }
        }
    }

    pub fn describe(&self) -> String {
        match self {
            Call::Req { kind, dest, a, entries, .. } => format!(
                "{}(dest={:#04x}, args={:02x?}{})",
                REQ_NAMES[*kind as usize],
                dest,
                a,
                if *kind == 8 { format!(", entries={}", entries.len()) } else { String::new() }
            ),
            Call::Resp { kind, dest, cc, a, list, .. } => format!(
                "{}(cc={}, dest={:#04x}, args={:02x?}, list_len={})",
                RESP_NAMES[*kind as usize],
                cc,
                dest,
                a,
                list.len()
            ),
            Call::Vendor { dest, format, data, body } => {
                format!("req.vendor_defined(dest={:#04x}, format={}, id={:#x}, body_len={})", dest, format, data, body.len())
            }
            Call::Raw { kind, dest, hdr, body, half } => format!(
                "{}.{}(dest={:#04x}, hdr={:02x?}, body_len={})",
                if *half == 0 { "req" } else { "resp" },
                ["generate_control_packet_bytes", "generate_pci_msg_packet_bytes", "generate_iana_msg_packet_bytes"][(*kind).min(2) as usize],
                dest,
                hdr,
                body.len()
            ),
            Call::Spdm { dest, secured, hdr, body, half } => format!(
                "{}.generate_spdm_msg_packet_bytes(dest={:#04x}, {}, hdr_len={:?}, body_len={})",
                if *half == 0 { "req" } else { "resp" },
                dest,
                if *secured { "SecuredMessages" } else { "SpdmOverMctp" },
                hdr.as_ref().map(|h| h.len()),
                body.len()
            ),
        }
    }
}

#[derive(Clone, Copy, Debug, PartialEq, Eq)]
pub enum Expect {
    Ok { mtype: u8, start: usize },
    ErrCc(u8),
}
