//! Swarm configuration: the first draws of a run fix node count, addresses,
//! configurations, bus speed, fault kinds and rates, buffers, workload weights.

use libmctp::vendor_packets::VendorIDFormat;

use crate::profile::*;
use crate::rng::{fill, Chooser};
use crate::stats::*;

pub struct NodeCfg {
    pub addr: u8,
    pub types: Vec<u8>,
    pub vendors: Vec<VendorIDFormat>,
    /// plain copy for the oracle: (format, data, numeric_value)
    pub vplain: Vec<(u8, u32, u16)>,
    /// 0 = driver sees transfer boundaries (STOP); 1 = driver cuts the FIFO stream with get_length
    pub framing: u8,
    pub tx_cap: usize,
    pub resp_cap: usize,
    pub poison_tx: u8,
    pub poison_resp: u8,
    /// 0 = poll after every chunk, 1 = coin, 2 = only when the scheduler polls
    pub autopoll: u8,
    /// boot code installs this UUID after (re)start, if any
    pub boot_uuid: Option<[u8; 16]>,
    /// 0 = the driver always receives into the start of its RX buffer, 1 = at a rotating offset
    pub rx_mode: u8,
    /// how the driver uses the library on a delivery: 0 = decode_packet then process_packet,
    /// 1 = process_packet then decode_packet, 2 = process_packet only
    pub call_mode: u8,
    /// firmware with a single buffer for everything it transmits: responses are written into the TX buffer
    pub shared_buf: bool,
}

pub struct Cfg {
    pub nodes: Vec<NodeCfg>,
    /// microseconds per byte on the wire (9 bit times at 100 kHz / 400 kHz)
    pub byte_us: u64,
    /// per-mille firing rate per fault kind (0 = kind disabled in this run)
    pub rate: [u32; NF],
    pub fault_free: bool,
    pub max_out: usize,
    pub timeout_us: u64,
    pub retries: u8,
    pub ops_w: [u32; N_OPS],
    pub stop_w: u32,
    pub snoop: bool,
    pub budget: u32,
    /// per-mille chance of a near-limit body in A2/A3
    pub big_pm: u32,
    pub forge_iid_pm: u32,
    pub soak: bool,
}

const LEVEL_PM: [u32; 4] = [0, 10, 100, 400];

pub fn draw(ch: &mut Chooser, prof: &Profile) -> Cfg {
    ch.mark();
    let n_nodes = 2 + ch.choose(4) as usize;
    let mut nodes: Vec<NodeCfg> = Vec::with_capacity(n_nodes);
    // always five configuration blocks (the first n_nodes are used), so that the block
    // structure of a run does not depend on the node count
    for i in 0..5 {
        ch.mark();
        // unique 7-bit address; edges 0x00, 0x7F and >= 0x40 are reachable
        let mut addr = match ch.choose(4) {
            0 => 0x10 + i as u8,
            1 => ch.choose(128) as u8,
            2 => 0x40 + ch.choose(64) as u8,
            _ => [0x00u8, 0x7F, 0x40, 0x3F, 0x01, 0x7E][ch.choose(6) as usize],
        };
        while nodes.iter().any(|n| n.addr == addr) {
            addr = (addr + 1) & 0x7F;
        }
        let n_types = match ch.choose(4) {
            0 => 1,
            1 => ch.choose(5) as usize,
            2 => 28 + ch.choose(3) as usize,
            _ => ch.choose(31) as usize,
        };
        let mut types = vec![0u8; n_types];
        let s = ch.choose(1 << 16);
        fill(s, &mut types);
        let n_sets = match ch.choose(4) {
            0 => 1,
            1 => 1 + ch.choose(3) as usize,
            2 => 16 - ch.choose(2) as usize,
            // an endpoint without vendor-defined support (no sets) is a valid configuration too
            _ => ch.choose(17) as usize,
        };
        let mut vendors = Vec::with_capacity(n_sets);
        let mut vplain = Vec::with_capacity(n_sets);
        for _ in 0..n_sets {
            let format = ch.choose(2) as u8;
            let data = match ch.choose(4) {
                0 => 0x1414,
                1 => ch.choose(1 << 16),
                2 => (ch.choose(1 << 16) << 16) | ch.choose(1 << 16),
                _ => [0u32, 0xFFFF_FFFF, 0x0001_0000, 0x00FF_00FF, 0x8000_0001, 0x0000_FFFF][ch.choose(6) as usize],
            };
            let numeric = match ch.choose(3) {
                0 => 4,
                1 => ch.choose(1 << 16) as u16,
                _ => [0u16, 0xFFFF, 0x0100, 0x00FF][ch.choose(4) as usize],
            };
            vendors.push(VendorIDFormat { format, data, numeric_value: numeric });
            vplain.push((format, data, numeric));
        }
        let framing = ch.choose(2) as u8;
        let tx_cap = [320usize, 64, 140, 300][ch.choose(4) as usize];
        let resp_cap = 64 + [0usize, 1, 36, 236][ch.choose(4) as usize];
        let poison_tx = ch.byte();
        let poison_resp = ch.byte();
        let autopoll = ch.choose(3) as u8;
        let boot_uuid = if ch.choose(3) == 1 {
            let mut u = [0u8; 16];
            let s = 1 + ch.choose(1 << 16);
            fill(s, &mut u);
            Some(u)
        } else {
            None
        };
        let rx_mode = ch.choose(2) as u8;
        let call_mode = ch.choose(3) as u8;
        let shared_buf = ch.choose(4) == 3;
        if i >= n_nodes {
            continue;
        }
        nodes.push(NodeCfg {
            addr,
            types,
            vendors,
            vplain,
            framing,
            tx_cap,
            resp_cap,
            poison_tx,
            poison_resp,
            autopoll,
            boot_uuid,
            rx_mode,
            call_mode,
            shared_buf,
        });
    }
    ch.mark();
    let byte_us = if ch.choose(2) == 0 { 90 } else { 23 };
    // fault-free (index 0, benign) or faulty
    let fault_free = ch.weighted(&[prof.fault_free_w, prof.faulty_w]) == 0;
    let mut rate = [0u32; NF];
    for k in 0..NF {
        let max = prof.fault_max[k] as u32;
        if max == 0 {
            continue;
        }
        let lvl = ch.choose(max + 1) as usize;
        let byte_altering = matches!(k, F_FLIP | F_BURST | F_GARBLE | F_TRUNC | F_EXTEND | F_MISROUTE | F_BRIDGE);
        let lossy = matches!(k, F_DROP | F_DUP | F_DELAY);
        if fault_free && (byte_altering || lossy) {
            continue;
        }
        rate[k] = LEVEL_PM[lvl];
    }
    let max_out = 1 + ch.choose(8) as usize;
    let timeout_us = [20_000u64, 2_000, 200_000][ch.choose(3) as usize];
    let retries = ch.choose(4) as u8;
    // swarm: each op's weight is scaled by a factor from {1, 0, 1, 3}
    let mut ops_w = prof.ops;
    for w in ops_w.iter_mut() {
        let f = [1u32, 0, 1, 3][ch.choose(4) as usize];
        *w *= f;
    }
    // keep the profile's dominant op alive
    let dom = (0..N_OPS).max_by_key(|&i| prof.ops[i]).unwrap_or(0);
    if ops_w[dom] == 0 {
        ops_w[dom] = prof.ops[dom];
    }
    if fault_free {
        // foreign traffic and garbage are wire faults too
        ops_w[OP_FORGE] = 0;
        ops_w[OP_NONMCTP] = 0;
        ops_w[OP_GARBAGE] = 0;
    }
    let stop_w = [4u32, 12, 2, 1][ch.choose(4) as usize];
    let snoop = ch.chance(prof.snoop_pc, 100);
    let mut budget = if prof.deep { [250u32, 80, 600, 1200][ch.choose(4) as usize] } else { [250u32, 80, 250, 600][ch.choose(4) as usize] };
    // one run in 256 is a soak run: a long history on few contexts (state that only
    // accumulates — counters, caches — needs hundreds of deliveries to matter)
    let soak = if prof.deep { ch.choose(256) >= 252 } else { ch.choose(256) == 255 };
    let mut stop_w = stop_w;
    if soak {
        budget = 4000;
        stop_w = 0;
    }
    let big_pm = prof.big_bodies * 60;
    Cfg {
        nodes,
        byte_us,
        rate,
        fault_free,
        max_out,
        timeout_us,
        retries,
        ops_w,
        stop_w,
        snoop,
        budget,
        big_pm,
        forge_iid_pm: prof.forge_iid_pm,
        soak,
    }
}
