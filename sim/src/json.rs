//! Minimal JSON value, writer and parser (no external crates: nothing can be fetched here).

use std::collections::BTreeMap;
use std::fmt::Write;

#[derive(Clone, Debug, PartialEq)]
pub enum J {
    Null,
    Bool(bool),
    Int(i64),
    Num(f64),
    Str(String),
    Arr(Vec<J>),
    /// insertion-ordered object
    Obj(Vec<(String, J)>),
}

impl J {
    pub fn obj() -> J {
        J::Obj(Vec::new())
    }
    pub fn set(&mut self, k: &str, v: J) -> &mut J {
        if let J::Obj(o) = self {
            if let Some(e) = o.iter_mut().find(|e| e.0 == k) {
                e.1 = v;
            } else {
                o.push((k.to_string(), v));
            }
        }
        self
    }
    pub fn get(&self, k: &str) -> Option<&J> {
        match self {
            J::Obj(o) => o.iter().find(|e| e.0 == k).map(|e| &e.1),
            _ => None,
        }
    }
    pub fn as_str(&self) -> Option<&str> {
        match self {
            J::Str(s) => Some(s),
            _ => None,
        }
    }
    pub fn as_i64(&self) -> Option<i64> {
        match self {
            J::Int(i) => Some(*i),
            J::Num(f) => Some(*f as i64),
            _ => None,
        }
    }
    pub fn as_arr(&self) -> Option<&Vec<J>> {
        match self {
            J::Arr(a) => Some(a),
            _ => None,
        }
    }
    pub fn s(x: &str) -> J {
        J::Str(x.to_string())
    }
    pub fn i<T: TryInto<i64>>(x: T) -> J {
        J::Int(x.try_into().unwrap_or(i64::MAX))
    }
    pub fn from_map(m: &BTreeMap<String, u64>) -> J {
        J::Obj(m.iter().map(|(k, v)| (k.clone(), J::i(*v))).collect())
    }
    pub fn strs<I: IntoIterator<Item = String>>(it: I) -> J {
        J::Arr(it.into_iter().map(J::Str).collect())
    }

    pub fn dump(&self) -> String {
        let mut s = String::new();
        self.write(&mut s, 0);
        s.push('\n');
        s
    }
    fn write(&self, out: &mut String, ind: usize) {
        match self {
            J::Null => out.push_str("null"),
            J::Bool(b) => out.push_str(if *b { "true" } else { "false" }),
            J::Int(i) => {
                let _ = write!(out, "{}", i);
            }
            J::Num(f) => {
                if f.is_finite() {
                    let _ = write!(out, "{:.3}", f);
                } else {
                    out.push_str("0");
                }
            }
            J::Str(s) => esc(s, out),
            J::Arr(a) => {
                if a.is_empty() {
                    out.push_str("[]");
                    return;
                }
                let flat = a.iter().all(|x| matches!(x, J::Int(_) | J::Num(_) | J::Bool(_)));
                if flat {
                    out.push('[');
                    for (i, x) in a.iter().enumerate() {
                        if i > 0 {
                            out.push(',');
                        }
                        x.write(out, 0);
                    }
                    out.push(']');
                    return;
                }
                out.push_str("[\n");
                for (i, x) in a.iter().enumerate() {
                    pad(out, ind + 1);
                    x.write(out, ind + 1);
                    if i + 1 < a.len() {
                        out.push(',');
                    }
                    out.push('\n');
                }
                pad(out, ind);
                out.push(']');
            }
            J::Obj(o) => {
                if o.is_empty() {
                    out.push_str("{}");
                    return;
                }
                out.push_str("{\n");
                for (i, (k, v)) in o.iter().enumerate() {
                    pad(out, ind + 1);
                    esc(k, out);
                    out.push_str(": ");
                    v.write(out, ind + 1);
                    if i + 1 < o.len() {
                        out.push(',');
                    }
                    out.push('\n');
                }
                pad(out, ind);
                out.push('}');
            }
        }
    }

    pub fn parse(text: &str) -> Result<J, String> {
        let b = text.as_bytes();
        let mut p = 0usize;
        let v = parse_val(b, &mut p)?;
        ws(b, &mut p);
        if p != b.len() {
            return Err(format!("trailing data at {}", p));
        }
        Ok(v)
    }
}

fn pad(out: &mut String, n: usize) {
    for _ in 0..n {
        out.push(' ');
    }
}

fn esc(s: &str, out: &mut String) {
    out.push('"');
    for c in s.chars() {
        match c {
            '"' => out.push_str("\\\""),
            '\\' => out.push_str("\\\\"),
            '\n' => out.push_str("\\n"),
            '\r' => out.push_str("\\r"),
            '\t' => out.push_str("\\t"),
            c if (c as u32) < 0x20 => {
                let _ = write!(out, "\\u{:04x}", c as u32);
            }
            c => out.push(c),
        }
    }
    out.push('"');
}

fn ws(b: &[u8], p: &mut usize) {
    while *p < b.len() && matches!(b[*p], b' ' | b'\n' | b'\r' | b'\t') {
        *p += 1;
    }
}

fn parse_val(b: &[u8], p: &mut usize) -> Result<J, String> {
    ws(b, p);
    if *p >= b.len() {
        return Err("unexpected end".into());
    }
    match b[*p] {
        b'{' => {
            *p += 1;
            let mut o = Vec::new();
            ws(b, p);
            if *p < b.len() && b[*p] == b'}' {
                *p += 1;
                return Ok(J::Obj(o));
            }
            loop {
                ws(b, p);
                let k = match parse_val(b, p)? {
                    J::Str(s) => s,
                    _ => return Err("object key must be a string".into()),
                };
                ws(b, p);
                if *p >= b.len() || b[*p] != b':' {
                    return Err(format!("expected ':' at {}", p));
                }
                *p += 1;
                let v = parse_val(b, p)?;
                o.push((k, v));
                ws(b, p);
                if *p < b.len() && b[*p] == b',' {
                    *p += 1;
                    continue;
                }
                if *p < b.len() && b[*p] == b'}' {
                    *p += 1;
                    return Ok(J::Obj(o));
                }
                return Err(format!("expected ',' or '}}' at {}", p));
            }
        }
        b'[' => {
            *p += 1;
            let mut a = Vec::new();
            ws(b, p);
            if *p < b.len() && b[*p] == b']' {
                *p += 1;
                return Ok(J::Arr(a));
            }
            loop {
                a.push(parse_val(b, p)?);
                ws(b, p);
                if *p < b.len() && b[*p] == b',' {
                    *p += 1;
                    continue;
                }
                if *p < b.len() && b[*p] == b']' {
                    *p += 1;
                    return Ok(J::Arr(a));
                }
                return Err(format!("expected ',' or ']' at {}", p));
            }
        }
        b'"' => {
            *p += 1;
            let mut s = String::new();
            while *p < b.len() {
                let c = b[*p];
                *p += 1;
                match c {
                    b'"' => return Ok(J::Str(s)),
                    b'\\' => {
                        if *p >= b.len() {
                            break;
                        }
                        let e = b[*p];
                        *p += 1;
                        match e {
                            b'n' => s.push('\n'),
                            b't' => s.push('\t'),
                            b'r' => s.push('\r'),
                            b'b' => s.push('\u{8}'),
                            b'f' => s.push('\u{c}'),
                            b'u' => {
                                if *p + 4 > b.len() {
                                    return Err("bad \\u".into());
                                }
                                let h = std::str::from_utf8(&b[*p..*p + 4]).map_err(|e| e.to_string())?;
                                let cp = u32::from_str_radix(h, 16).map_err(|e| e.to_string())?;
                                s.push(char::from_u32(cp).unwrap_or('?'));
                                *p += 4;
                            }
                            other => s.push(other as char),
                        }
                    }
                    _ => {
                        // copy raw UTF-8 bytes
                        let start = *p - 1;
                        let mut end = *p;
                        while end < b.len() && b[end] != b'"' && b[end] != b'\\' {
                            end += 1;
                        }
                        s.push_str(std::str::from_utf8(&b[start..end]).map_err(|e| e.to_string())?);
                        *p = end;
                    }
                }
            }
            Err("unterminated string".into())
        }
        b't' if b[*p..].starts_with(b"true") => {
            *p += 4;
            Ok(J::Bool(true))
        }
        b'f' if b[*p..].starts_with(b"false") => {
            *p += 5;
            Ok(J::Bool(false))
        }
        b'n' if b[*p..].starts_with(b"null") => {
            *p += 4;
            Ok(J::Null)
        }
        _ => {
            let start = *p;
            while *p < b.len() && matches!(b[*p], b'-' | b'+' | b'.' | b'e' | b'E' | b'0'..=b'9') {
                *p += 1;
            }
            let t = std::str::from_utf8(&b[start..*p]).map_err(|e| e.to_string())?;
            if t.is_empty() {
                return Err(format!("unexpected byte at {}", start));
            }
            if let Ok(i) = t.parse::<i64>() {
                Ok(J::Int(i))
            } else {
                t.parse::<f64>().map(J::Num).map_err(|e| e.to_string())
            }
        }
    }
}
