//! One integer decides everything: xoshiro256** seeded from (VERIF_SEED, run index),
//! wrapped in a *choice sequence* recorder/replayer.  Library code never draws.
//!
//! Every simulator decision is `choose(n) -> [0,n)`.  In search mode the value
//! comes from the PRNG and is appended to `rec`; in replay mode it is served from
//! a recorded sequence (value mod n; exhausted => 0).  All choice points are
//! ordered so that 0 is the benign alternative (no fault / stop / smallest).

#[derive(Clone)]
pub struct Xo {
    s: [u64; 4],
}

fn splitmix(x: &mut u64) -> u64 {
    *x = x.wrapping_add(0x9E37_79B9_7F4A_7C15);
    let mut z = *x;
    z = (z ^ (z >> 30)).wrapping_mul(0xBF58_476D_1CE4_E5B9);
    z = (z ^ (z >> 27)).wrapping_mul(0x94D0_49BB_1331_11EB);
    z ^ (z >> 31)
}

impl Xo {
    pub fn new(seed: u64, run: u64) -> Xo {
        let mut a = seed;
        let base = splitmix(&mut a);
        let mut st = base ^ run.wrapping_mul(0x9E37_79B9_7F4A_7C15);
        let s = [
            splitmix(&mut st),
            splitmix(&mut st),
            splitmix(&mut st),
            splitmix(&mut st),
        ];
        Xo { s }
    }
    #[inline]
    pub fn next(&mut self) -> u64 {
        let r = self.s[1].wrapping_mul(5).rotate_left(7).wrapping_mul(9);
        let t = self.s[1] << 17;
        self.s[2] ^= self.s[0];
        self.s[3] ^= self.s[1];
        self.s[1] ^= self.s[2];
        self.s[0] ^= self.s[3];
        self.s[2] ^= t;
        self.s[3] = self.s[3].rotate_left(45);
        r
    }
}

pub enum Source {
    Search(Xo),
    /// block-structured replay: every `mark()` moves to the next recorded block, so an
    /// edit inside one block (a scheduler step, one node's configuration) never shifts
    /// the meaning of the choices in the blocks after it
    Replay { blocks: Vec<Vec<u32>>, bi: usize, pos: usize, started: bool },
}

pub struct Chooser {
    src: Source,
    /// every value actually used, in order (the run's choice sequence)
    pub rec: Vec<u32>,
    /// positions in `rec` at which a top-level scheduler step begins
    pub marks: Vec<u32>,
    /// number of blocks that belong to the configuration (the steps follow)
    pub cfg_end: u32,
    /// hard cap on draws per run (a run that hits it is stopped, not failed)
    pub cap: usize,
}

impl Chooser {
    pub fn search(seed: u64, run: u64) -> Chooser {
        Chooser {
            src: Source::Search(Xo::new(seed, run)),
            rec: Vec::with_capacity(256),
            marks: Vec::new(),
            cfg_end: 0,
            cap: 400_000,
        }
    }
    pub fn replay(blocks: Vec<Vec<u32>>) -> Chooser {
        Chooser {
            src: Source::Replay { blocks, bi: 0, pos: 0, started: false },
            rec: Vec::with_capacity(256),
            marks: Vec::new(),
            cfg_end: 0,
            cap: 400_000,
        }
    }
    pub fn exhausted(&self) -> bool {
        self.rec.len() >= self.cap
    }
    #[inline]
    fn raw(&mut self, n: u32) -> u32 {
        debug_assert!(n >= 1);
        if n <= 1 {
            // still recorded, so that positions are stable under code-independent edits
            self.rec.push(0);
            if let Source::Replay { pos, .. } = &mut self.src {
                *pos += 1;
            }
            return 0;
        }
        if self.rec.len() >= self.cap {
            self.rec.push(0);
            return 0;
        }
        let v = match &mut self.src {
            Source::Search(x) => {
                if self.rec.len() >= self.cap {
                    0
                } else {
                    ((x.next() >> 32) * n as u64 >> 32) as u32
                }
            }
            Source::Replay { blocks, bi, pos, .. } => {
                let v = match blocks.get(*bi) {
                    Some(b) if *pos < b.len() => b[*pos] % n,
                    _ => 0,
                };
                *pos += 1;
                v
            }
        };
        self.rec.push(v);
        v
    }
    /// uniform in [0, n)
    #[inline]
    pub fn choose(&mut self, n: u32) -> u32 {
        self.raw(n.max(1))
    }
    /// index into a weight vector; 0-weight entries are never returned
    pub fn weighted(&mut self, w: &[u32]) -> usize {
        let total: u64 = w.iter().map(|&x| x as u64).sum();
        if total == 0 {
            self.rec.push(0);
            if let Source::Replay { pos, .. } = &mut self.src {
                *pos += 1;
            }
            return 0;
        }
        let idx = match &mut self.src {
            Source::Search(x) => {
                if self.rec.len() >= self.cap {
                    first_nonzero(w, 0)
                } else {
                    let mut r = ((x.next() >> 11) as u128 * total as u128 >> 53) as u64;
                    let mut k = 0;
                    for (i, &wi) in w.iter().enumerate() {
                        if r < wi as u64 {
                            k = i;
                            break;
                        }
                        r -= wi as u64;
                    }
                    k
                }
            }
            Source::Replay { blocks, bi, pos, .. } => {
                let v = match blocks.get(*bi) {
                    Some(b) if *pos < b.len() => b[*pos] as usize % w.len(),
                    _ => 0,
                };
                *pos += 1;
                first_nonzero(w, v)
            }
        };
        self.rec.push(idx as u32);
        idx
    }
    /// true with probability num/den; a recorded 0 always means "no"
    #[inline]
    pub fn chance(&mut self, num: u32, den: u32) -> bool {
        if num == 0 {
            return false;
        }
        self.choose(den) >= den - num.min(den)
    }
    #[inline]
    pub fn byte(&mut self) -> u8 {
        self.choose(256) as u8
    }
    /// a value biased to small numbers and to the edges of [0, max]
    pub fn size(&mut self, max: u32) -> u32 {
        match self.choose(4) {
            0 => self.choose(max.min(8) + 1),
            1 => self.choose(max.min(40) + 1),
            2 => max - self.choose(max.min(6) + 1),
            _ => self.choose(max + 1),
        }
    }
    /// start a new block (call at the start of every block, including the first)
    pub fn mark(&mut self) {
        self.marks.push(self.rec.len() as u32);
        if let Source::Replay { bi, pos, started, .. } = &mut self.src {
            if *started {
                *bi += 1;
            }
            *started = true;
            *pos = 0;
        }
    }
    /// the recorded sequence cut into its blocks
    pub fn blocks_of(rec: &[u32], marks: &[u32]) -> Vec<Vec<u32>> {
        let mut out = Vec::with_capacity(marks.len());
        for (i, &m) in marks.iter().enumerate() {
            let a = m as usize;
            let b = if i + 1 < marks.len() { marks[i + 1] as usize } else { rec.len() };
            out.push(rec[a.min(rec.len())..b.min(rec.len())].to_vec());
        }
        out
    }
}

fn first_nonzero(w: &[u32], from: usize) -> usize {
    for i in from..w.len() {
        if w[i] > 0 {
            return i;
        }
    }
    for i in 0..from.min(w.len()) {
        if w[i] > 0 {
            return i;
        }
    }
    0
}

/// deterministic byte filler: content derived from one recorded choice
pub fn fill(seed: u32, out: &mut [u8]) {
    if seed == 0 {
        for (i, b) in out.iter_mut().enumerate() {
            *b = i as u8;
        }
        return;
    }
    let mut st = seed as u64 ^ 0xA076_1D64_78BD_642F;
    let mut i = 0;
    while i < out.len() {
        let v = splitmix(&mut st);
        for k in 0..8 {
            if i + k < out.len() {
                out[i + k] = (v >> (8 * k)) as u8;
            }
        }
        i += 8;
    }
}

/// FNV-1a 64 running digest
#[derive(Clone, Copy)]
pub struct Fnv(pub u64);
impl Fnv {
    pub fn new() -> Fnv {
        Fnv(0xcbf2_9ce4_8422_2325)
    }
    #[inline]
    pub fn byte(&mut self, b: u8) {
        self.0 ^= b as u64;
        self.0 = self.0.wrapping_mul(0x0000_0100_0000_01B3);
    }
    #[inline]
    pub fn bytes(&mut self, bs: &[u8]) {
        for &b in bs {
            self.byte(b);
        }
    }
    #[inline]
    pub fn u64(&mut self, v: u64) {
        self.bytes(&v.to_le_bytes());
    }
    pub fn str(&mut self, s: &str) {
        self.bytes(s.as_bytes());
        self.byte(0xFF);
    }
}
