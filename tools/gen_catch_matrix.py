#!/usr/bin/env python3
"""Rewrite the catch-matrix region of DESIGN.md from mutants/last_full_results.json,
seeded/last_results.json (+ baseline_results.json) and seeded/*/meta.json."""
import json, os, re
H = os.path.dirname(os.path.dirname(os.path.abspath(__file__)))
def load(p, d=None):
    try: return json.load(open(os.path.join(H, p)))
    except Exception: return d
out = []
mut = load("mutants/last_full_results.json", [])
out.append("#### Sensitivity corpus (`mutants/corpus.json`, my own edits; quick-size batches)\n")
out.append("| edit | expected | result | checks that report it (signature of the first violation) |")
out.append("|---|---|---|---|")
for r in mut:
    al = "; ".join(f"**{k}** `{v}`" for k, v in sorted(r.get("alarms", {}).items())) or "—"
    out.append(f"| {r['id']} | {r['expect'].split(':')[0] if r['kind']=='breaking' else 'benign'} | {r['status']} | {al} |")
base = {}
for bf in ("seeded/baseline_results.json", "seeded/baseline_round2_results.json", "seeded/baseline_round3_results.json", "seeded/baseline_round4_results.json", "seeded/baseline_round5_results.json", "seeded/baseline_round6_results.json", "seeded/baseline_round7_results.json"):
    for r in (load(bf, {}) or {}).get("results", []):
        base[r["id"]] = r
cur = {r["id"]: r for r in load("seeded/last_full_results.json", [])}
out.append("\n#### Independently written changes (`seeded/<id>/`, sub-agents that saw only the property text)\n")
out.append("| id | property | what it does / what it needs | first run (machinery before I read the change) | now: checks that report it |")
out.append("|---|---|---|---|---|")
sd = os.path.join(H, "seeded")
for name in sorted(os.listdir(sd)):
    mp = os.path.join(sd, name, "meta.json")
    if not os.path.exists(mp): continue
    m = json.load(open(mp))
    b = base.get(name); c = cur.get(name)
    bs = (b["status"] + (" (" + ", ".join(sorted(b.get("alarms", {}))) + ")" if b.get("alarms") else "")) if b else m.get("first_run", "n/a")
    cs = "; ".join(f"**{k}** `{v}`" for k, v in sorted(c.get("alarms", {}).items())) if c else "n/a"
    if c and c["status"] != "DETECTED" and m.get("kind", "breaking") == "breaking": cs = c["status"] + " " + cs
    what = (m.get("summary", "") + " — needs: " + m.get("needs", "")).replace("|", "/").replace("\n", " ")
    if len(what) > 420: what = what[:417] + "..."
    out.append(f"| {name} | {m.get('property','benign')} | {what} | {bs} | {cs} |")
text = "\n".join(out) + "\n"
p = os.path.join(H, "DESIGN.md")
s = open(p).read()
a, b = "<!-- CATCH-MATRIX-BEGIN -->", "<!-- CATCH-MATRIX-END -->"
if a in s:
    s = s[: s.index(a) + len(a)] + "\n" + text + s[s.index(b):]
    open(p, "w").write(s)
    print("DESIGN.md catch matrix updated:", len(mut), "corpus rows,", len(cur), "seeded rows")
else:
    print(text)
