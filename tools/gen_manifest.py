#!/usr/bin/env python3
"""Generate /verif/MANIFEST.json (kept in one place so that all 13 checks stay consistent)."""
import json, os
HERE = os.path.dirname(os.path.dirname(os.path.abspath(__file__)))

CLAIMED = {
 "C01": ("5/C01", "Seeded simulation of fault-free deliveries: every frame a real encoder produced is delivered unaltered (chunking, delay, duplication, late polls allowed) to other real contexts with different address, configuration and history, and to every snooping node; the decoder's result must be the encoded type and the payload sub-slice ending right before the PEC, or the unsuccessful-completion error with the encoded code.",
          "seeded simulation of fault-free multi-node delivery, decode round-trip oracle"),
 "C02": ("5/C02", "Seeded wire-fault injection (bit flips, <=8-bit bursts, garbling, truncation, stuck-line extension, misrouting) on in-flight frames of every message type reaching contexts in every state; oracles: accept implies reference CRC-8 ok, burst never accepted, bad PEC leaves response buffer and EID untouched, and every later output equals that of a twin context given the same call history minus the bad-PEC deliveries.",
          "seeded wire-fault injection on a simulated SMBus segment with PEC/no-effect oracles and a reference model"),
 "C04": ("5/C04", "Seeded simulation of receiver-side framing: frames from several senders queue back-to-back in a slave FIFO, arrive in seeded chunks and are re-split with get_length; header bytes, byte count, reported length, probe-on-every-prefix and stream re-splitting must agree (also for every response process_packet generates), and bodies beyond the one-byte count must be refused.",
          "seeded simulation of chunked arrival / FIFO coalescing with framing and conservation oracles"),
 "C07": ("5/C07", "Response encoders are called by node applications after seeded histories (assignments through the bus, accessor writes, restarts); the encoded layout is compared with the DSP0236 reference layout and the EID the context has stored; the same marshalling checks run on every response process_packet generates, including answers to forged requests.",
          "seeded history simulation with a reference EID model and reference response layouts"),
 "C09": ("5/C09", "Bus snooping: every frame on the wire (intact, corrupted, truncated, extended, forged by a foreign node with valid PEC and out-of-range header fields) is decoded by every node; verdict, type, payload range and error truthfulness are compared with an independent reference decoder and across contexts.",
          "seeded simulation with foreign-node forging and wire faults, differential against a reference decoder on every node"),
 "C10": ("5/C10", "Panic trap around get_length, decode_packet and process_packet on every delivery of the widest fault profile (truncation at every point, garbage transfers, forged frames over all command/completion/operation/selector values, lengths 0..259), overflow checks on, valid configurations, response buffers >= 64 bytes.",
          "seeded fault injection with panic trapping on the receive path"),
 "C11": ("5/C11", "Every delivery is decoded and then processed on the same node whose response buffer is persistent and dirty; results must agree, a response is reported only for accepted control requests, and the buffer is untouched otherwise / beyond the reported length.",
          "seeded simulation, decode-vs-process differential with persistent dirty response buffers"),
 "C12": ("5/C12", "Requester nodes keep several requests with forged instance IDs outstanding under drop, duplication, delay/reordering and retries; every response written by process_packet is checked field by field against its request on the wire, and delivered responses are correlated in-band at the requester over the recorded history.",
          "seeded schedule/fault simulation of request-response conversations with wire and history correlation oracles"),
 "C13": ("5/C13", "An executable reference model of the two EID cells is driven by the same seeded history (assignments with Set/Force, duplicates, reordering, corrupted and rejected frames, responses, vendor traffic, decode-only calls, accessor writes, restarts) and compared after every event via both accessors and via Get/Set Endpoint ID answers.",
          "seeded history simulation checked step by step against an executable reference model"),
 "C14": ("5/C14", "Several requesters walk one responder's vendor ID sets concurrently by following returned selectors, with retries, under drop/duplicate/reorder/burst faults; every answer and every completed walk (each set once, in order, terminating) is checked over the history, in-domain queries must be answered, and once faults stop every walk that was not abandoned must terminate (bounded liveness).",
          "seeded simulation of concurrent selector-following conversations with per-answer and per-walk history oracles"),
 "C15": ("5/C15", "Identity queries (message types, UUID, version) are interleaved with all other traffic, UUID updates and restarts; answers are compared with the reference model's configured identity at every point of every history.",
          "seeded history simulation against a reference identity model"),
 "C16": ("5/C16", "Every node encodes into one persistent, never-cleared TX buffer of seeded capacity whose content is whatever its history left; each call is repeated into a differently poisoned, differently sized buffer and compared; the tail must be untouched; documented-invalid arguments must fail and leave the buffer untouched.",
          "seeded simulation of buffer reuse (dirty persistent buffers, capacity knob) with differential re-encoding"),
 "C17": ("5/C17", "The RX driver probes the growing prefix after every arriving chunk (including 0-2 byte prefixes and prefixes that already contain the next frame); the answer must be Ok(b[2]+4) iff b[1]==0x0F, stable while more bytes arrive, and identical on every node.",
          "seeded simulation of partial arrival with a three-byte reference function and stability/context oracles"),
}

NA = {
 "C03": "pure function of the bytes the encoder just wrote: no schedule, fault, history or second party can influence the PEC of an encoded packet, so a simulator would only be an input generator (DESIGN.md section 6); responses are still PEC-checked by the C12 wire oracle",
 "C05": "bytes 4-8 are a pure function of the encoder's arguments and the context's fixed address; nothing for a scheduler or fault injector to vary (DESIGN.md section 6)",
 "C06": "each request body is a pure function of the call's parameters (the request encoders read no mutable state); differential input testing, not simulation (DESIGN.md section 6)",
 "C08": "vendor / SPDM framing is a pure function of (format, id, message); no state, schedule or fault involved (DESIGN.md section 6)",
 "C18": "getters/setters of bit-field views over a caller-supplied array: pure, no state outlives the call (DESIGN.md section 6)",
 "C19": "total functions u8 -> enum: pure (DESIGN.md section 6)",
}

checks = []
for pid, (ref, text, tech) in CLAIMED.items():
    checks.append({
        "property_id": pid,
        "quick_cmd": f"./check {pid} quick",
        "thorough_cmd": f"./check {pid} thorough",
        "evidence_file": f"/verif/evidence/{pid}.json",
        "replay_cmd_template": "./check replay {path}",
        "engine": "simbus",
        "level_claimed": {
            "category": "exploration",
            "text": text + " Seeded search over schedules, fault sequences and workloads (quick: 2-3*10^5 runs incl. ~1 in 256 soak runs of 4000 steps, thorough: 40x more runs with longer histories - step budgets up to 1200 and one soak run in 64); a clean batch is evidence, not proof.",
            "design_ref": f"DESIGN.md section {ref}",
        },
        "level_note": "Trusted base: the stub bus/driver model, the reference code in sim/src/refmodel.rs (bitwise CRC-8, reference decoder, layouts) written from the property text and DSP0236/DSP0237, rustc release build with overflow-checks. Sampling only: inputs/schedules the profile never draws are not covered (probe counts in the evidence show what was reached).",
        "technique": "deterministic simulation with fault injection: " + tech,
    })

manifest = {
    "version": 1,
    "setup_cmd": "./setup.sh",
    "hooks": {
        "guard": "libmctp_verif",
        "enable": "none needed: the simulator uses only public seams (byte slices in/out, &self contexts, get_eid/set_eid/set_uuid); /repo is built unmodified as a cargo path dependency of /verif/sim with overflow-checks=true",
        "baseline_off_cmd": "cd /repo && cargo test --workspace --no-fail-fast --offline",
        "source_commits": [],
        "add_only": True,
    },
    "engines": [{
        "name": "simbus",
        "path": "/verif/sim",
        "serves_properties": list(CLAIMED.keys()),
        "kind_free_text": "single-process discrete-event simulation of one SMBus segment; 2-5 real MCTPSMBusContext nodes; stub bus, drivers and foreign node; one PRNG (VERIF_SEED, run index) behind a recorded choice sequence; wire faults, chunked arrival, restarts, dirty buffers; online invariants + history oracles; block-structured shrinking; replay files",
    }],
    "checks": checks,
    "not_applicable": [{"property_id": k, "reason": v} for k, v in NA.items()],
    "notes": "Genuine defects found on the pinned tree were repaired in /repo with nine 'fix:' commits (listed as fixed: in /verif/known_findings.txt); one defect (C01, Get Endpoint ID response length table, pinned by an existing test) is a known finding. Self-tests: ./check selftest determinism | replays | mutants | seeded (50 own edits; 117 breaking + 56 benign changes written by independent sub-agents, see DESIGN.md section 12).",
}
json.dump(manifest, open(os.path.join(HERE, "MANIFEST.json"), "w"), indent=1)
print("wrote MANIFEST.json with", len(checks), "checks,", len(NA), "not_applicable")
