#!/usr/bin/env bash
# tools/coverage.sh [runs]  — one-off reach measurement (not a registered check):
# line/region coverage of libmctp's non-test code under each profile's simulated workload,
# using source-based coverage of the nightly toolchain.  Output: tools/coverage_report.txt
set -eu
HERE="$(cd "$(dirname "${BASH_SOURCE[0]}")/.." && pwd)"
RUNS="${1:-20000}"
TC="$HOME/.rustup/toolchains/nightly-x86_64-unknown-linux-gnu/lib/rustlib/x86_64-unknown-linux-gnu/bin"
W="$(mktemp -d /tmp/simbus-cov-XXXX)"
trap 'rm -rf "$W"' EXIT
export CARGO_NET_OFFLINE=true
( cd "$HERE/sim" && RUSTFLAGS="-C instrument-coverage" CARGO_TARGET_DIR="$W/target" cargo +nightly build --release --offline --quiet )
BIN="$W/target/release/simbus"
mkdir -p "$W/out"; cp "$HERE/known_findings.txt" "$W/out/"
for p in C01 C02 C04 C07 C09 C10 C11 C12 C13 C14 C15 C16 C17; do
  LLVM_PROFILE_FILE="$W/prof/$p-%p.profraw" VERIF_DIR="$W/out" VERIF_RUNS="$RUNS" VERIF_WORKERS=8 "$BIN" check $p quick >/dev/null
done
"$TC/llvm-profdata" merge -sparse "$W"/prof/*.profraw -o "$W/all.profdata"
{
  echo "# libmctp source coverage under the 13 simulation profiles ($RUNS runs each), $(date -u +%F)"
  "$TC/llvm-cov" report "$BIN" -instr-profile="$W/all.profdata" --sources /repo/src 2>/dev/null
  echo
  echo "# lines of /repo/src never executed (non-test code only; #[cfg(test)] modules are not compiled in)"
  "$TC/llvm-cov" show "$BIN" -instr-profile="$W/all.profdata" --sources /repo/src --show-line-counts-or-regions 2>/dev/null \
     | awk '/^\/repo\/src/ {f=$0} /^ +[0-9]+\| +0\|/ {print f " " $0}' | head -150
} > "$HERE/tools/coverage_report.txt"
head -30 "$HERE/tools/coverage_report.txt"
