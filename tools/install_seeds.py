#!/usr/bin/env python3
"""tools/install_seeds.py <prefix> <origin text> <glob of delivered dirs...>
Confirm independently written changes (tools/verify_seed.sh for breaking ones, apply + suite for
benign ones = directories without demo.rs) and copy the confirmed ones to /verif/seeded/<prefix><name>/."""
import json, os, shutil, subprocess, sys, glob
from concurrent.futures import ThreadPoolExecutor
H = os.path.dirname(os.path.dirname(os.path.abspath(__file__)))
prefix, origin, pats = sys.argv[1], sys.argv[2], sys.argv[3:]
dirs = sorted(d for p in pats for d in glob.glob(p) if os.path.isdir(d) and os.path.exists(os.path.join(d, "patch.diff")))

def one(d):
    base = os.path.basename(d)
    name = prefix + base.split("-", 1)[1]
    meta = json.load(open(os.path.join(d, "meta.json")))
    if os.path.exists(os.path.join(d, "demo.rs")):
        out = subprocess.run([os.path.join(H, "tools/verify_seed.sh"), d], capture_output=True, text=True).stdout.strip().splitlines()
        v = json.loads(out[-1]) if out else {"status": "NO-OUTPUT"}
        if v.get("status") != "CONFIRMED":
            return name, "NOT CONFIRMED: " + json.dumps(v)[:300]
        meta["kind"] = "breaking"
        meta["confirmed"] = {"by": "tools/verify_seed.sh in a scratch worktree", **{k: v[k] for k in ("status", "clean_demo", "clean_suite", "patched_suite", "patched_demo")}}
    else:
        wt = f"/tmp/vb-{name}-{os.getpid()}"
        subprocess.run(f"git -C /repo worktree add --detach {wt} HEAD -q", shell=True, check=True)
        r = subprocess.run(f'cd {wt} && git apply {d}/patch.diff && cargo test --offline 2>&1 | grep -E "^test result" | tr "\\n" ";"', shell=True, capture_output=True, text=True)
        subprocess.run(f"git -C /repo worktree remove --force {wt}", shell=True)
        if not ("ok. 59 passed" in r.stdout and "ok. 4 passed" in r.stdout):
            return name, "SUITE/APPLY PROBLEM: " + (r.stdout + r.stderr)[:300]
        meta["kind"] = "benign"
        meta["property"] = "benign"
        meta["confirmed"] = {"by": "git apply + cargo test --offline in a scratch worktree", "patched_suite": r.stdout}
    meta["origin"] = origin
    dst = os.path.join(H, "seeded", name)
    os.makedirs(dst, exist_ok=True)
    for f in ("patch.diff", "demo.rs"):
        if os.path.exists(os.path.join(d, f)):
            shutil.copy(os.path.join(d, f), os.path.join(dst, f))
    json.dump(meta, open(os.path.join(dst, "meta.json"), "w"), indent=1)
    return name, "installed (" + meta["kind"] + ", " + meta.get("property", "") + ")"

with ThreadPoolExecutor(max_workers=6) as ex:
    for name, msg in ex.map(one, dirs):
        print(name, msg)
