#!/usr/bin/env bash
# tools/verify_seed.sh <seed-dir> : confirm an independently written breaking change
#   clean HEAD : demo passes, full suite passes
#   patched    : full suite (unedited) passes, demo fails
# Works in a scratch worktree of /repo under /tmp, removed afterwards.  Prints one JSON line.
set -u
D="$(cd "$1" && pwd)"; ID="$(basename "$D")"
WT="/tmp/vs-$ID-$$"
export CARGO_NET_OFFLINE=true
git -C /repo worktree add --detach "$WT" HEAD -q || exit 2
trap 'git -C /repo worktree remove --force "$WT" >/dev/null 2>&1; rm -rf "$WT"' EXIT
cd "$WT"
mkdir -p tests && cp "$D/demo.rs" tests/demo.rs
clean_demo=$(cargo test --offline --test demo 2>&1 | grep -E "^test result" | head -1)
clean_suite=$(cargo test --offline --lib 2>&1 | grep -E "^test result" | head -1)
rm -f tests/demo.rs
if ! git apply "$D/patch.diff" 2>/tmp/vs-$ID.err; then echo "{\"id\":\"$ID\",\"status\":\"PATCH-DOES-NOT-APPLY\"}"; exit 1; fi
files=$(git diff --name-only | tr '\n' ' ')
patched_suite=$(cargo test --offline 2>&1 | grep -E "^test result" | tr '\n' ';')
cp "$D/demo.rs" tests/demo.rs
patched_demo=$(cargo test --offline --test demo 2>&1 | grep -E "^test result|error(\[|:)" | head -1)
ok=1
case "$clean_demo" in *"test result: ok"*) ;; *) ok=0;; esac
case "$clean_suite" in *"ok. 59 passed"*) ;; *) ok=0;; esac
case "$patched_suite" in *"ok. 59 passed"*"ok. 4 passed"*) ;; *) ok=0;; esac
case "$patched_demo" in *"FAILED"*) ;; *) ok=0;; esac
st=$([ $ok = 1 ] && echo CONFIRMED || echo NOT-CONFIRMED)
printf '{"id":"%s","status":"%s","files":"%s","clean_demo":"%s","clean_suite":"%s","patched_suite":"%s","patched_demo":"%s"}\n' "$ID" "$st" "$files" "$clean_demo" "$clean_suite" "$patched_suite" "$patched_demo"
